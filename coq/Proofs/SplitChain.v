(* C07 — lineage movements: to_ms encodes a deme with several ancestors as a chain of
   conditional splits (-es self (1 - c_k); -ej new anc_k; ...; -ej self anc_last with
   c_k = p_k / (p_k + ... + p_m)).  Part 1: in exact arithmetic the chain sends exactly
   p_k / (p_1 + ... + p_m) of the deme's lineages to ancestor k.  Part 2: the events
   ancestry_events emits are that chain (any number implementation). *)
From Coq Require Import Bool List String QArith Qabs Lqa Lia ZArith Arith.
From Demes Require Import Base.Num Base.Py Model.MDM Model.MsOpt Model.ToMs Spec.Valid Spec.MsSem.
Import ListNotations.
Local Open Scope string_scope.
Local Open Scope list_scope.

(* ---------------- Part 1: exact arithmetic ---------------- *)
Definition qsum (l : list Q) : Q := fold_right Qplus 0%Q l.

(* what reaches each ancestor: the k-th split diverts the fraction c_k of what is left, the last
   ancestor takes the remainder *)
Fixpoint chain (rem : Q) (ps : list Q) : list Q :=
  match ps with
  | [] => []
  | [_] => [rem]
  | p :: rest => let c := (p / qsum ps)%Q in (rem * c)%Q :: chain (rem * (1 - c))%Q rest
  end.

Lemma qsum_cons p ps : qsum (p :: ps) = (p + qsum ps)%Q.
Proof. reflexivity. Qed.
Lemma qsum_nil : qsum [] = 0%Q.
Proof. reflexivity. Qed.

Lemma qsum_nonneg ps : Forall (fun p => (0 < p)%Q) ps -> (0 <= qsum ps)%Q.
Proof.
  induction 1 as [|p ps Hp _ IH]; [rewrite qsum_nil|rewrite qsum_cons]; lra.
Qed.

Lemma qsum_pos ps : Forall (fun p => (0 < p)%Q) ps -> ps <> [] -> (0 < qsum ps)%Q.
Proof.
  intros HF Hne. destruct ps as [|p ps]; [congruence|].
  inversion HF as [|? ? Hp HF']; subst. apply qsum_nonneg in HF'. rewrite qsum_cons. lra.
Qed.

Lemma chain_cons2 rem p q r :
  chain rem (p :: q :: r) =
  (rem * (p / qsum (p :: q :: r)))%Q :: chain (rem * (1 - p / qsum (p :: q :: r)))%Q (q :: r).
Proof. reflexivity. Qed.

Lemma Forall2_imp {A B} (R1 R2 : A -> B -> Prop) l l' :
  (forall a b, R1 a b -> R2 a b) -> Forall2 R1 l l' -> Forall2 R2 l l'.
Proof. intros HR. induction 1; constructor; auto. Qed.

Lemma chain_gen ps :
  Forall (fun p => (0 < p)%Q) ps ->
  forall rem, Forall2 (fun a p => (a == rem * (p / qsum ps))%Q) (chain rem ps) ps.
Proof.
  induction ps as [|p rest IH]; intros HF rem; [constructor|].
  inversion HF as [|? ? Hp HF']; subst.
  destruct rest as [|q rest'].
  - cbn [chain]. constructor; [|constructor]. rewrite qsum_cons, qsum_nil. field. lra.
  - assert (HS : (0 < qsum (q :: rest'))%Q) by (apply qsum_pos; [assumption|discriminate]).
    rewrite chain_cons2. constructor; [reflexivity|].
    eapply Forall2_imp; [|apply (IH HF')].
    intros a x Ha. cbv beta in Ha. rewrite Ha.
    change (qsum (p :: q :: rest')) with (p + qsum (q :: rest'))%Q.
    set (S' := qsum (q :: rest')) in *.
    field. split; lra.
Qed.

Lemma Forall2_map_r {A B C} (R : A -> C -> Prop) (f : B -> C) l l' :
  Forall2 (fun a b => R a (f b)) l l' -> Forall2 R l (map f l').
Proof. induction 1; cbn; constructor; auto. Qed.

Theorem chain_correct (ps : list Q) :
  Forall (fun p => (0 < p)%Q) ps ->
  Forall2 Qeq (chain 1%Q ps) (map (fun p => (p / qsum ps)%Q) ps).
Proof.
  intro HF. apply Forall2_map_r.
  eapply Forall2_imp; [|apply (chain_gen ps HF 1%Q)].
  intros a p Ha. cbv beta in Ha. rewrite Ha. ring.
Qed.

Lemma qsum_Qeq l l' : Forall2 Qeq l l' -> (qsum l == qsum l')%Q.
Proof. induction 1 as [|a b l l' Hab _ IH]; [reflexivity|]. rewrite !qsum_cons, Hab, IH. reflexivity. Qed.

Lemma qsum_map_div S ps : ~ (S == 0)%Q -> (qsum (map (fun p => (p / S)%Q) ps) == qsum ps / S)%Q.
Proof.
  intro HS. induction ps as [|p ps IH]; cbn [map].
  - rewrite qsum_nil. field. assumption.
  - rewrite !qsum_cons, IH. field. assumption.
Qed.

(* nothing is lost: the shares add up to everything *)
Theorem chain_total (ps : list Q) :
  Forall (fun p => (0 < p)%Q) ps -> ps <> [] -> (qsum (chain 1%Q ps) == 1)%Q.
Proof.
  intros HF Hne. pose proof (qsum_pos ps HF Hne) as HS.
  rewrite (qsum_Qeq _ _ (chain_correct ps HF)).
  rewrite qsum_map_div by lra. field. lra.
Qed.

(* ---------------- Part 2: the emitted events are that chain ---------------- *)
Section Emitted.
  Context {N : NumOps}.

  (* the specification of the events for ancestors ids (ms population numbers) with proportions
     props, for the deme whose population is self, when next free population number is S n *)
  Fixpoint split_events (t : num) (self : nat) (n : nat) (ids : list nat) (props : list num) : list msev :=
    match ids, props with
    | [a], _ => [Evj (nfloat t) self a]
    | a :: ids', p :: props' =>
        Evs (nfloat t) self (nfloat (nsub n1 (ndiv p (pysum props)))) :: Evj (nfloat t) (S n) a
        :: split_events t self (S n) ids' props'
    | _, _ => []
    end.

  Lemma sc_bind_ok {A B} (m : res A) (k : A -> res B) y :
    bind m k = Ok y -> exists a, m = Ok a /\ k a = Ok y.
  Proof. destruct m; cbn; intro H; [eauto|discriminate]. Qed.

  Lemma sc_pdiv_inv x y z : pdiv x y = Ok z -> z = ndiv x y.
  Proof.
    unfold pdiv. destruct (neqb y n0); intro H; [discriminate|].
    inversion H; reflexivity.
  Qed.

  Lemma mk_s_inv t i p e : mk_s t i p = Ok e -> e = Evs (nfloat t) i (nfloat p).
  Proof.
    unfold mk_s. intro H.
    apply sc_bind_ok in H; destruct H as (u1 & _ & H).
    apply sc_bind_ok in H; destruct H as (u2 & _ & H).
    inversion H; reflexivity.
  Qed.

  Lemma mk_j_inv t i j e : mk_j t i j = Ok e -> e = Evj (nfloat t) i j.
  Proof.
    unfold mk_j. intro H.
    apply sc_bind_ok in H; destruct H as (u1 & _ & H).
    inversion H; reflexivity.
  Qed.

  Lemma drop_nth {A} (l : list A) : forall k x, nth_error l k = Some x -> drop k l = x :: drop (S k) l.
  Proof.
    induction l as [|a l IH]; intros [|k] x H; cbn in H; try discriminate.
    - inversion H; subst. destruct l; reflexivity.
    - cbn. rewrite (IH k x H). reflexivity.
  Qed.

  Lemma split_events_one t self n a props : split_events t self n [a] props = [Evj (nfloat t) self a].
  Proof. destruct props; reflexivity. Qed.

  Lemma split_events_cons2 t self n a b ids p props :
    split_events t self n (a :: b :: ids) (p :: props) =
    Evs (nfloat t) self (nfloat (nsub n1 (ndiv p (pysum (p :: props))))) :: Evj (nfloat t) (S n) a
      :: split_events t self (S n) (b :: ids) props.
  Proof. reflexivity. Qed.

  Lemma ancestry_events_gen names d self : forall ancs k n evs n',
    ancestry_events names d self k ancs n = Ok (evs, n') ->
    exists ids, mapM (id_of names) ancs = Ok ids /\
      evs = split_events (d_start d) self n ids (drop k (d_props d)) /\
      n' = (n + (List.length ancs - 1))%nat.
  Proof.
    induction ancs as [|a rest IH]; intros k n evs n' H.
    - cbn in H. inversion H; subst. exists []. cbn. repeat split. lia.
    - cbn [ancestry_events] in H.
      apply sc_bind_ok in H; destruct H as (aid & Haid & H).
      apply sc_bind_ok in H; destruct H as (pk & Hpk & H).
      apply sc_bind_ok in H; destruct H as (prop & Hprop & H).
      apply sc_pdiv_inv in Hprop.
      assert (Hnth : nth_error (d_props d) k = Some pk)
        by (destruct (nth_error (d_props d) k); [inversion Hpk; reflexivity|discriminate]).
      destruct rest as [|b rest'].
      + apply sc_bind_ok in H; destruct H as (u & _ & H).
        apply sc_bind_ok in H; destruct H as (e & He & H).
        apply mk_j_inv in He. inversion H; subst.
        exists [aid]. cbn [mapM]. rewrite Haid. cbn.
        repeat split. lia.
      + apply sc_bind_ok in H; destruct H as (e1 & He1 & H).
        apply sc_bind_ok in H; destruct H as (e2 & He2 & H).
        apply sc_bind_ok in H; destruct H as ([evs2 n2] & Hr & H).
        apply mk_s_inv in He1. apply mk_j_inv in He2.
        apply IH in Hr. destruct Hr as (ids & Hids & Hevs & Hn).
        inversion H; subst evs n'. cbn [fst snd].
        assert (exists bid ids', ids = bid :: ids') as (bid & ids' & ->).
        { cbn [mapM] in Hids.
          apply sc_bind_ok in Hids; destruct Hids as (bid & _ & Hids).
          apply sc_bind_ok in Hids; destruct Hids as (ids' & _ & Hids).
          inversion Hids. eauto. }
        exists (aid :: bid :: ids'). split.
        { change (mapM (id_of names) (a :: b :: rest')) with
            (x <- id_of names a ;; bs <- mapM (id_of names) (b :: rest') ;; Ok (x :: bs)).
          rewrite Haid. cbn [bind]. rewrite Hids. reflexivity. }
        split.
        { rewrite (drop_nth _ _ _ Hnth). rewrite split_events_cons2.
          rewrite <- (drop_nth _ _ _ Hnth). subst. reflexivity. }
        { subst n2. cbn [List.length]. lia. }
  Qed.

  Theorem ancestry_events_chain names d self n evs n' :
    List.length (d_props d) = List.length (d_anc d) ->
    ancestry_events names d self 0 (d_anc d) n = Ok (evs, n') ->
    exists ids, mapM (id_of names) (d_anc d) = Ok ids /\
      evs = split_events (d_start d) self n ids (d_props d) /\
      n' = (n + (List.length (d_anc d) - 1))%nat.
  Proof.
    intros _ H. apply ancestry_events_gen in H.
    destruct H as (ids & H1 & H2 & H3). exists ids. repeat split; assumption.
  Qed.

  (* ---------------- Part 3: what the ms semantics does with such a chain ----------------
     one step of the fold inside Spec/MsSem.v ms_moves, on a single row (population r's
     distribution over populations) with n populations in existence *)
  Definition move_row (e : msev) (rn : list num * nat) : list num * nat :=
    let '(row, n) := rn in
    match e with
    | Evs _ i p => let x := nth (i - 1) row nf0 in
                   (upd (i - 1) (fun _ => nmul p x) row ++ [nmul (nsub n1 p) x], S n)
    | Evj _ i j => let x := nth (i - 1) row nf0 in
                   (upd (i - 1) (fun _ => nf0) (upd (j - 1) (fun y => nadd y x) row), n)
    | _ => rn
    end.
End Emitted.

(* Part 3, exact: running the chain of a deme with ancestors ids (pairwise distinct, different
   from self, all <= n) and positive rational proportions ps on a row that holds x at self and
   y_k at ancestor k ends with 0 at self, y_k + x * p_k / sum ps at ancestor k, 0 in every
   population the chain created, and every other entry untouched.  Stated over plain rationals:
   rows are lists of Q, the operations are those of move_row with Q arithmetic. *)
Definition qupd := @upd Q.
Definition move_row_Q (e : nat * nat * option Q) (rn : list Q * nat) : list Q * nat :=
  (* (i, j, None) = -ej i j ; (i, _, Some p) = -es i p *)
  let '(row, n) := rn in
  match e with
  | (i, _, Some p) => let x := nth (i - 1) row 0%Q in
                      (qupd (i - 1) (fun _ => (p * x)%Q) row ++ [((1 - p) * x)%Q], S n)
  | (i, j, None) => let x := nth (i - 1) row 0%Q in
                    (qupd (i - 1) (fun _ => 0%Q) (qupd (j - 1) (fun y => (y + x)%Q) row), n)
  end.
Fixpoint split_events_Q (self n : nat) (ids : list nat) (ps : list Q) : list (nat * nat * option Q) :=
  match ids, ps with
  | [a], _ => [(self, a, None)]
  | a :: ids', p :: ps' =>
      (self, 0%nat, Some (1 - p / qsum ps)%Q) :: (S n, a, None) :: split_events_Q self (S n) ids' ps'
  | _, _ => []
  end.

Lemma upd_length {A} (f : A -> A) l : forall i, List.length (upd i f l) = List.length l.
Proof. induction l as [|x l IH]; intros [|i]; cbn; auto. Qed.

Lemma nth_upd_same {A} (f : A -> A) d l : forall i,
  (i < List.length l)%nat -> nth i (upd i f l) d = f (nth i l d).
Proof.
  induction l as [|x l IH]; intros [|i] H; cbn in *; try lia; auto.
  apply IH. lia.
Qed.

Lemma nth_upd_other {A} (f : A -> A) d l : forall i j,
  i <> j -> nth j (upd i f l) d = nth j l d.
Proof.
  induction l as [|x l IH]; intros [|i] [|j] H; cbn; try congruence; auto.
Qed.

(* one -es self q ; -ej (S n) a  pair *)
Lemma step_es_ej (self n a : nat) (q : Q) (row : list Q) :
  List.length row = n -> (1 <= self <= n)%nat -> (1 <= a <= n)%nat -> a <> self ->
  exists row1,
    move_row_Q (S n, a, None) (move_row_Q (self, 0%nat, Some q) (row, n)) = (row1, S n) /\
    List.length row1 = S n /\
    nth (self - 1) row1 0%Q = (q * nth (self - 1) row 0)%Q /\
    nth (a - 1) row1 0%Q = (nth (a - 1) row 0 + (1 - q) * nth (self - 1) row 0)%Q /\
    nth n row1 0%Q = 0%Q /\
    (forall j, j <> (self - 1)%nat -> j <> (a - 1)%nat -> j <> n -> nth j row1 0%Q = nth j row 0%Q).
Proof.
  intros Hlen Hs Ha Hne.
  unfold move_row_Q at 2. cbv beta iota.
  set (x := nth (self - 1) row 0%Q).
  set (row0 := qupd (self - 1) (fun _ => (q * x)%Q) row ++ [((1 - q) * x)%Q]).
  unfold move_row_Q. cbv beta iota.
  replace (S n - 1)%nat with n by lia.
  assert (Hl0 : List.length (qupd (self - 1) (fun _ : Q => (q * x)%Q) row) = n)
    by (unfold qupd; rewrite upd_length; exact Hlen).
  assert (Hlr0 : List.length row0 = S n)
    by (unfold row0; rewrite app_length, Hl0; cbn; lia).
  assert (Hx' : nth n row0 0%Q = ((1 - q) * x)%Q).
  { unfold row0. rewrite app_nth2 by lia. rewrite Hl0, Nat.sub_diag. reflexivity. }
  rewrite Hx'.
  set (rowa := qupd (a - 1) (fun y => (y + (1 - q) * x)%Q) row0).
  assert (Hla : List.length rowa = S n) by (unfold rowa, qupd; rewrite upd_length; exact Hlr0).
  exists (qupd n (fun _ => 0%Q) rowa). split; [reflexivity|].
  split; [unfold qupd; rewrite upd_length; exact Hla|].
  split.
  { unfold qupd at 1. rewrite nth_upd_other by lia.
    unfold rowa, qupd at 1. rewrite nth_upd_other by lia.
    unfold row0. rewrite app_nth1 by lia.
    unfold qupd. rewrite nth_upd_same by lia. reflexivity. }
  split.
  { unfold qupd at 1. rewrite nth_upd_other by lia.
    unfold rowa, qupd at 1. rewrite nth_upd_same by lia.
    unfold row0. rewrite app_nth1 by lia.
    unfold qupd. rewrite nth_upd_other by lia. reflexivity. }
  split.
  { unfold qupd at 1. rewrite nth_upd_same by lia. reflexivity. }
  intros j Hj1 Hj2 Hj3.
  unfold qupd at 1. rewrite nth_upd_other by lia.
  unfold rowa, qupd at 1. rewrite nth_upd_other by lia.
  unfold row0.
  destruct (Nat.lt_ge_cases j n) as [Hlt|Hge].
  - rewrite app_nth1 by lia. unfold qupd. rewrite nth_upd_other by lia. reflexivity.
  - rewrite !nth_overflow; [reflexivity|lia|]. rewrite app_length, Hl0. cbn. lia.
Qed.

Lemma split_events_Q_one self n a ps : split_events_Q self n [a] ps = [(self, a, None)].
Proof. destruct ps; reflexivity. Qed.

Lemma split_events_Q_cons2 self n a b ids p ps :
  split_events_Q self n (a :: b :: ids) (p :: ps) =
  (self, 0%nat, Some (1 - p / qsum (p :: ps))%Q) :: (S n, a, None)
    :: split_events_Q self (S n) (b :: ids) ps.
Proof. reflexivity. Qed.

Lemma split_chain_gen (self : nat) : forall (ids : list nat) (ps : list Q) (n : nat) (row row' : list Q) (n' : nat),
  List.length row = n -> List.length ids = List.length ps -> ids <> [] ->
  Forall (fun p => (0 < p)%Q) ps -> NoDup ids -> ~ In self ids ->
  (1 <= self <= n)%nat -> Forall (fun a => (1 <= a <= n)%nat) ids ->
  fold_left (fun rn e => move_row_Q e rn) (split_events_Q self n ids ps) (row, n) = (row', n') ->
  n' = (n + (List.length ids - 1))%nat /\ List.length row' = n' /\
  (nth (self - 1) row' 0 == 0)%Q /\
  (forall k a p, nth_error ids k = Some a -> nth_error ps k = Some p ->
     (nth (a - 1) row' 0 == nth (a - 1) row 0 + nth (self - 1) row 0 * (p / qsum ps))%Q) /\
  (forall m, (n < m <= n')%nat -> (nth (m - 1) row' 0 == 0)%Q) /\
  (forall m, (1 <= m <= n)%nat -> m <> self -> ~ In m ids -> (nth (m - 1) row' 0 == nth (m - 1) row 0)%Q).
Proof.
  induction ids as [|a ids IH]; intros ps n row row' n' Hlen Hl Hne HF Hnd Hself Hs Hids Hfold;
    [congruence|].
  inversion Hids as [|? ? Ha Hids']; subst.
  inversion Hnd as [|? ? Hnin Hnd']; subst.
  assert (Has : a <> self) by (intro; subst; apply Hself; left; reflexivity).
  destruct ids as [|b ids].
  - (* last ancestor *)
    rewrite split_events_Q_one in Hfold. cbn [fold_left] in Hfold.
    unfold move_row_Q in Hfold. inversion Hfold; subst row' n'; clear Hfold.
    destruct ps as [|p [|p2 ps]]; try discriminate.
    inversion HF as [|? ? Hp _]; subst.
    set (x := nth (self - 1) row 0%Q).
    assert (Hla : List.length (qupd (a - 1) (fun y : Q => (y + x)%Q) row) = List.length row)
      by (unfold qupd; apply upd_length).
    split; [cbn; lia|]. split; [unfold qupd; rewrite !upd_length; reflexivity|].
    split; [unfold qupd at 1; rewrite nth_upd_same by lia; reflexivity|].
    split.
    { intros [|k] a' p' Hk1 Hk2; cbn in Hk1, Hk2; [|destruct k; discriminate].
      inversion Hk1; inversion Hk2; subst a' p'.
      unfold qupd at 1. rewrite nth_upd_other by lia.
      unfold qupd. rewrite nth_upd_same by lia.
      rewrite qsum_cons, qsum_nil. fold x. field. lra. }
    split; [intros m Hm; lia|].
    intros m Hm Hms Hmi.
    assert (m <> a) by (intro; subst; apply Hmi; left; reflexivity).
    unfold qupd. rewrite !nth_upd_other by lia. reflexivity.
  - (* a split followed by the rest of the chain *)
    destruct ps as [|p ps]; [discriminate|].
    inversion HF as [|? ? Hp HF']; subst.
    assert (HS : (0 < qsum ps)%Q).
    { apply qsum_pos; [assumption|]. destruct ps; [discriminate|discriminate]. }
    rewrite split_events_Q_cons2 in Hfold. cbn [fold_left] in Hfold.
    set (c := (p / qsum (p :: ps))%Q) in *.
    destruct (step_es_ej self (List.length row) a (1 - c)%Q row eq_refl Hs Ha Has)
      as (row1 & E & Hl1 & R1s & R1a & R1n & R1o).
    rewrite E in Hfold. clear E.
    apply IH in Hfold; try assumption.
    2:{ cbn in Hl |- *. lia. }
    2:{ discriminate. }
    2:{ intro Hin. apply Hself. right. exact Hin. }
    2:{ lia. }
    2:{ eapply Forall_impl; [|exact Hids']. cbv beta. intros; lia. }
    destruct Hfold as (Hn' & Hlr' & Hs0 & Hanc & Hnew & Hoth).
    assert (Hall : forall m, In m (b :: ids) -> (1 <= m <= List.length row)%nat)
      by (apply Forall_forall; exact Hids').
    split; [rewrite Hn'; cbn [List.length]; lia|].
    split; [exact Hlr'|]. split; [exact Hs0|].
    split.
    { intros [|k] a' p' Hk1 Hk2; cbn [nth_error] in Hk1, Hk2.
      - inversion Hk1; inversion Hk2; subst a' p'.
        rewrite (Hoth a) by (try assumption; lia).
        rewrite R1a. fold c. ring.
      - rewrite (Hanc k a' p' Hk1 Hk2).
        assert (Hin : In a' (b :: ids)) by (eapply nth_error_In; exact Hk1).
        pose proof (Hall _ Hin) as Hr.
        assert (a' <> a) by (intro; subst; contradiction).
        assert (a' <> self) by (intro; subst; apply Hself; right; exact Hin).
        rewrite (R1o (a' - 1)%nat) by lia. rewrite R1s.
        unfold c. rewrite qsum_cons.
        set (S' := qsum ps) in *. set (x := nth (self - 1) row 0%Q).
        field. split; lra. }
    split.
    { intros m Hm.
      destruct (Nat.eq_dec m (S (List.length row))) as [->|Hmn].
      - rewrite (Hoth (S (List.length row))).
        + replace (S (List.length row) - 1)%nat with (List.length row) by lia.
          rewrite R1n. reflexivity.
        + lia.
        + lia.
        + intro Hin. apply Hall in Hin. lia.
      - apply Hnew. lia. }
    intros m Hm Hms Hmi.
    rewrite (Hoth m).
    + assert (m <> a) by (intro; subst; apply Hmi; left; reflexivity).
      rewrite (R1o (m - 1)%nat) by lia. reflexivity.
    + lia.
    + assumption.
    + intro Hin. apply Hmi. right. exact Hin.
Qed.

Theorem split_chain_moves (self n : nat) (ids : list nat) (ps : list Q) (row : list Q) :
  List.length row = n -> List.length ids = List.length ps -> ids <> [] ->
  Forall (fun p => (0 < p)%Q) ps -> NoDup ids -> ~ In self ids ->
  (1 <= self <= n)%nat -> Forall (fun a => (1 <= a <= n)%nat) ids ->
  let '(row', n') := fold_left (fun rn e => move_row_Q e rn) (split_events_Q self n ids ps) (row, n) in
  n' = (n + (List.length ids - 1))%nat /\ List.length row' = n' /\
  (nth (self - 1) row' 0 == 0)%Q /\
  (forall k a p, nth_error ids k = Some a -> nth_error ps k = Some p ->
     (nth (a - 1) row' 0 == nth (a - 1) row 0 + nth (self - 1) row 0 * (p / qsum ps))%Q) /\
  (forall m, (n < m <= n')%nat -> (nth (m - 1) row' 0 == 0)%Q) /\
  (forall m, (1 <= m <= n)%nat -> m <> self -> ~ In m ids -> (nth (m - 1) row' 0 == nth (m - 1) row 0)%Q).
Proof.
  intros H1 H2 H3 H4 H5 H6 H7 H8.
  destruct (fold_left (fun rn e => move_row_Q e rn) (split_events_Q self n ids ps) (row, n))
    as [row' n'] eqn:E.
  eapply split_chain_gen; eassumption.
Qed.

(* ---------------- Extra: the fold inside ms_moves is move_row on every row ---------------- *)
Section MovesStep.
  Context {N : NumOps}.

  (* the step function of the second foldM of Spec/MsSem.v ms_moves, verbatim *)
  Definition moves_step (same : num -> num -> bool) (t : num)
             (acc : list (list num) * nat) (e : msev) : res (list (list num) * nat) :=
    let '(P, n) := acc in
    if same (ev_time e) t then
      match e with
      | Evs _ i p =>
          raise_if (negb (Nat.leb 1 i && Nat.leb i n)) ValueErr ;;;
          Ok (map (fun row => let x := nth (i - 1) row nf0 in
                              upd (i - 1) (fun _ => nmul p x) row ++ [nmul (nsub n1 p) x]) P, S n)
      | Evj _ i j =>
          raise_if (negb (Nat.leb 1 i && Nat.leb i n && Nat.leb 1 j && Nat.leb j n)
                    || Nat.eqb i j) ValueErr ;;;
          Ok (map (fun row => let x := nth (i - 1) row nf0 in
                              upd (i - 1) (fun _ => nf0)
                                  (upd (j - 1) (fun y => nadd y x) row)) P, n)
      | _ => Ok acc
      end
    else Ok acc.

  Lemma ms_moves_unfold same c t :
    ms_moves same c t =
    (before <- foldM (fun s e => if nlt (ev_time e) t && negb (same (ev_time e) t) then apply_ev s e else Ok s)
                     (all_events c) (init_state c) ;;
     let ident := mapi 0 (fun i (_ : mpop) => mapi 0 (fun j (_ : mpop) => if Nat.eqb i j then nf1 else nf0)
                                                   (st_pops before)) (st_pops before) in
     r <- foldM (moves_step same t) (all_events c) (ident, npops before) ;;
     Ok (fst r)).
  Proof. reflexivity. Qed.

  Definition split_join_ok (n : nat) (e : msev) : Prop :=
    match e with
    | Evs _ i _ => (1 <= i <= n)%nat
    | Evj _ i j => (1 <= i <= n)%nat /\ (1 <= j <= n)%nat /\ i <> j
    | _ => False
    end.

  Lemma moves_step_rows same t P n e :
    same (ev_time e) t = true -> split_join_ok n e ->
    moves_step same t (P, n) e =
    Ok (map (fun row => fst (move_row e (row, n))) P, snd (move_row e ([], n))).
  Proof.
    intros Hsame Hok. unfold moves_step. rewrite Hsame.
    destruct e; cbn in Hok; try contradiction.
    - assert (E : (Nat.leb 1 i && Nat.leb i n)%bool = true)
        by (apply andb_true_intro; split; apply Nat.leb_le; lia).
      rewrite E. reflexivity.
    - destruct Hok as (Hi & Hj & Hij).
      assert (E : (Nat.leb 1 i && Nat.leb i n && Nat.leb 1 j && Nat.leb j n)%bool = true)
        by (repeat (apply andb_true_intro; split); apply Nat.leb_le; lia).
      assert (E2 : Nat.eqb i j = false) by (apply Nat.eqb_neq; exact Hij).
      rewrite E, E2. reflexivity.
  Qed.
End MovesStep.

Print Assumptions chain_correct.
Print Assumptions chain_total.
Print Assumptions ancestry_events_chain.
Print Assumptions split_chain_moves.

Print Assumptions moves_step_rows.
Print Assumptions ms_moves_unfold.
