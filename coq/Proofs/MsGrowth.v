(* C07 — sizes: what the ms semantics holds for population i at time T, in terms of the epoch of
   deme i that owns T.
   to_ms_growth: the growth rate in force is (numerically) the growth rate demes.to_ms computes
   for that epoch: the -en / -eg events of a deme are emitted epoch by epoch from the present, an
   -en resets the growth rate (in ms and in to_ms's own tracking), and an -eg is emitted exactly
   when the tracked rate differs from the epoch's.
   to_ms_size_after_jump: when the size jumps at the end of the owning epoch (so an -en is
   emitted there), the ms population is anchored at that epoch end with exactly the emitted size
   end_size / N0, whatever else happens at that time.
   (That the exponential in between then reproduces the deme's size function is real arithmetic,
   evaluated per command by the check.)  Stated on the event list before the final division of
   all times by 4*N0 (to_ms_unscaled), like Proofs/MsRates.v. *)
From Coq Require Import Bool List String QArith Lqa Lia Arith Permutation.
From Demes Require Import Base.Num Base.Py Model.MDM Model.InGen Model.MigMat Model.MsOpt
  Model.ToMs Spec.Valid Spec.MsSem Proofs.MigMatProofs Proofs.ResolveInv
  Proofs.InGenProofs Proofs.MsProofs Proofs.MsRates.
Import ListNotations.
Local Open Scope string_scope.
Local Open Scope list_scope.
Local Open Scope nat_scope.

Section MsGrowth.
  Context {N : NumOps} {L : NumLaws N}.

  (* "numerically the same rate": the same value, or two values that compare equal *)
  Definition SameRate (x y : num) : Prop := x = y \/ neqb x y = true.

  (* ================= the interpreter, seen from one population ================= *)

  (* the size fields of a population: (size at the anchor, growth rate, anchor time) *)
  Definition tri : Type := (num * num * num)%type.
  Definition szf (p : mpop) : tri := (mp_size p, mp_alpha p, mp_t p).
  Definition size3 (v : tri) (t : num) : num :=
    let '(s, a, t0) := v in
    if neqb a n0 then s else nmul s (nexp (nmul (nsub n0 a) (nsub t t0))).

  (* effect of one event on the size fields of population j-1 *)
  Definition sstep (j : nat) (v : tri) (e : msev) : tri :=
    match e with
    | Evn t a x tm => if Nat.eqb a j then (x, (if negb tm then snd (fst v) else n0), t) else v
    | Evg t a al => if Nat.eqb a j then (size3 v t, al, t) else v
    | _ => v
    end.
  Definition noGN (e : msev) : Prop := match e with EvG _ _ | EvN _ _ => False | _ => True end.
  Definition isSzj (j : nat) (e : msev) : bool :=
    match e with Evn _ a _ _ | Evg _ a _ => Nat.eqb a j | _ => false end.

  Lemma apply_ev_szf s e s' i p :
    noGN e -> apply_ev s e = Ok s' -> nth_error (st_pops s) i = Some p ->
    exists p', nth_error (st_pops s') i = Some p' /\ szf p' = sstep (S i) (szf p) e.
  Proof.
    intros HG H Hp. unfold apply_ev in H.
    destruct e as [t a|t a al|t x|t a x tm|t x|t a b x|t np m ini|t a p0|t a b];
      cbn in HG; try contradiction; cbn [sstep].
    - mraise H Hc. injection H as <-. cbn [st_pops]. rewrite nth_error_upd, Hp.
      apply negb_false_iff in Hc. apply andb_true_iff in Hc. destruct Hc as [Ha1 Ha2].
      apply Nat.leb_le in Ha1.
      destruct (Nat.eqb a (S i)) eqn:Ea.
      + apply Nat.eqb_eq in Ea. replace (Nat.eqb i (a - 1)) with true by (symmetry; apply Nat.eqb_eq; lia).
        cbn. eexists. split; reflexivity.
      + apply Nat.eqb_neq in Ea. replace (Nat.eqb i (a - 1)) with false by (symmetry; apply Nat.eqb_neq; lia).
        eauto.
    - mraise H Hc. injection H as <-. cbn [st_pops]. rewrite nth_error_upd, Hp.
      apply negb_false_iff in Hc. apply andb_true_iff in Hc. destruct Hc as [Ha1 Ha2].
      apply Nat.leb_le in Ha1.
      destruct (Nat.eqb a (S i)) eqn:Ea.
      + apply Nat.eqb_eq in Ea. replace (Nat.eqb i (a - 1)) with true by (symmetry; apply Nat.eqb_eq; lia).
        cbn. eexists. split; reflexivity.
      + apply Nat.eqb_neq in Ea. replace (Nat.eqb i (a - 1)) with false by (symmetry; apply Nat.eqb_neq; lia).
        eauto.
    - injection H as <-. cbn. eauto.
    - mraise H Hc. injection H as <-. cbn. eauto.
    - mraise H Hc. injection H as <-. cbn. eauto.
    - mraise H Hc. injection H as <-. cbn.
      rewrite nth_error_app1 by (apply nth_error_Some; congruence). eauto.
    - mraise H Hc. injection H as <-. cbn [st_pops]. rewrite nth_error_upd, Hp.
      destruct (Nat.eqb i (a - 1)); cbn; eexists; split; reflexivity.
  Qed.

  Lemma fold_szf T i l : forall s s' p,
    (forall e, In e l -> noGN e) ->
    foldM (fun s e => if nle (ev_time e) T then apply_ev s e else Ok s) l s = Ok s' ->
    nth_error (st_pops s) i = Some p ->
    exists p', nth_error (st_pops s') i = Some p' /\
      szf p' = fold_left (sstep (S i)) (filter (leT T) l) (szf p).
  Proof.
    induction l as [|e l IH]; intros s s' p HG H Hp; cbn in H.
    - injection H as <-. exists p. split; [exact Hp|reflexivity].
    - mbind H s1 H1. cbn [filter]. unfold leT at 1.
      assert (forall x, In x l -> noGN x) as HG' by (intros x Hx; apply HG; now right).
      destruct (nle (ev_time e) T).
      + destruct (apply_ev_szf _ _ _ _ _ (HG e (or_introl eq_refl)) H1 Hp) as (p1 & Hp1 & E1).
        destruct (IH _ _ _ HG' H Hp1) as (p' & Hp' & E'). exists p'. split; [exact Hp'|].
        cbn [fold_left]. now rewrite <- E1.
      + injection H1 as <-. exact (IH _ _ _ HG' H Hp).
  Qed.

  Lemma sstep_filter j l : forall v,
    fold_left (sstep j) l v = fold_left (sstep j) (filter (isSzj j) l) v.
  Proof.
    induction l as [|e l IH]; intro v; cbn [filter fold_left]; [reflexivity|].
    destruct (isSzj j e) eqn:E; cbn [fold_left]; [apply IH|].
    rewrite <- IH. f_equal. destruct e; cbn in *; try reflexivity; now rewrite E.
  Qed.

  Lemma filter_comm {A} (P Q : A -> bool) l : filter P (filter Q l) = filter Q (filter P l).
  Proof.
    induction l as [|x l IH]; [reflexivity|]. cbn [filter].
    destruct (Q x) eqn:EQ, (P x) eqn:EP; cbn [filter]; rewrite ?EQ, ?EP, IH; reflexivity.
  Qed.

  Lemma filter_all {A} (P : A -> bool) l : (forall x, In x l -> P x = true) -> filter P l = l.
  Proof.
    induction l as [|x l IH]; intro H; cbn; [reflexivity|].
    rewrite (H x (or_introl eq_refl)). f_equal. apply IH. intros y Hy. apply H. now right.
  Qed.

  (* ================= the -en / -eg group of to_ms_unscaled ================= *)

  Lemma szlocal_isSzj j j' e : szlocal j e -> isSzj j' e = Nat.eqb j j'.
  Proof. destruct e; cbn; try contradiction; intros ->; reflexivity. Qed.

  Lemma sz_fold_exact N0 n4N0 ds : forall acc acc' i di,
    foldM (sz_step N0 n4N0) ds acc = Ok acc' -> nth_error ds i = Some di ->
    exists Li, size_events N0 n4N0 (snd acc + i) (rev (d_epochs di)) N0 n0 = Ok Li /\
      filter (isSzj (snd acc + i)) (fst acc') = filter (isSzj (snd acc + i)) (fst acc) ++ Li.
  Proof.
    induction ds as [|d ds IH]; intros acc acc' i di H Hi; [destruct i; discriminate|].
    cbn in H. mbind H acc1 H1. unfold sz_step in H1. mbind H1 evs1 Hevs1. injection H1 as <-.
    assert (forall e, In e evs1 -> szlocal (snd acc) e) as Loc1.
    { intros e He. now destruct (size_events_spec _ _ _ _ _ _ _ Hevs1 e He). }
    destruct i as [|i].
    - cbn in Hi. injection Hi as <-. rewrite Nat.add_0_r. exists evs1. split; [exact Hevs1|].
      destruct (sz_fold _ _ _ _ _ H) as (evs2 & E2 & P2). cbn [fst snd] in *.
      rewrite E2, !filter_app.
      rewrite (filter_nil _ evs2).
      2:{ intros e He. destruct (P2 e He) as ((j & Hj & Hl) & _). rewrite (szlocal_isSzj _ _ _ Hl).
          apply Nat.eqb_neq. lia. }
      rewrite app_nil_r. f_equal. apply filter_all. intros e He.
      rewrite (szlocal_isSzj _ _ _ (Loc1 e He)). apply Nat.eqb_refl.
    - cbn in Hi. destruct (IH _ _ _ _ H Hi) as (Li & HLi & E). cbn [fst snd] in *.
      replace (snd acc + S i) with (S (snd acc) + i) by lia. exists Li. split; [exact HLi|].
      rewrite E, filter_app. rewrite (filter_nil _ evs1); [now rewrite app_nil_r|].
      intros e He. rewrite (szlocal_isSzj _ _ _ (Loc1 e He)). apply Nat.eqb_neq. lia.
  Qed.

  (* the unsorted event list: every time is a number, no -eG/-eN, and the -en/-eg events of
     population i are exactly what size_events emits for deme i, in that order *)
  Lemma to_ms_sizes g0 g N0 n evs i di :
    in_generations g0 = Ok g -> Valid g -> to_ms_unscaled g0 N0 = Ok (n, evs) ->
    nth_error (g_demes g) i = Some di ->
    n = List.length (g_demes g) /\
    exists U Li, evs = sort_events U /\
      (forall e, In e U -> ok (ev_time e) /\ noGN e) /\
      size_events N0 (nmul n4 N0) (S i) (rev (d_epochs di)) N0 n0 = Ok Li /\
      filter (isSzj (S i)) U = Li.
  Proof.
    intros Hg V H Hdi. unfold to_ms_unscaled in H. rewrite Hg in H. cbn [bind] in H. cbv zeta in H.
    mbind H sz Hsz. mbind H sj Hsj. mbind H off Hoff. mbind H on Hon.
    injection H as <- <-. split; [reflexivity|].
    set (names := map d_name (g_demes g)) in *.
    set (n := List.length (g_demes g)) in *.
    change (foldM (sz_step N0 (nmul n4 N0)) (g_demes g) ([], 1) = Ok sz) in Hsz.
    destruct (sz_fold_exact _ _ _ _ _ _ _ Hsz Hdi) as (Li & HLi & ELi). cbn [fst snd filter app Nat.add] in HLi, ELi.
    apply sz_fold in Hsz. destruct Hsz as (esz & Esz & Psz). cbn [fst snd app] in Esz, Psz.
    set (dps := sort_dp (map DP_pulse (rev (g_pulses g)) ++ map DP_deme (g_demes g))) in *.
    change (foldM (sj_step names) dps ([], n) = Ok sj) in Hsj.
    apply (sj_fold_spec names dps) in Hsj; [|auto].
    destruct Hsj as (_ & Fsj & _ & _). cbn [fst snd] in Fsj.
    change (foldM (off_step g names) (g_migs g) [] = Ok off) in Hoff.
    apply off_fold_spec in Hoff. destruct Hoff as (Foff & _ & _).
    change (foldM (on_step names (nmul n4 N0)) (g_migs g) [] = Ok on) in Hon.
    apply on_fold_spec in Hon. destruct Hon as (Fon & _ & _).
    assert (forall x, In x dps <-> In x (map DP_pulse (rev (g_pulses g)) ++ map DP_deme (g_demes g))) as Hdps.
    { intro x. unfold dps. rewrite sort_dp_g. split; intro Hx.
      - apply (Permutation_in _ (gsort_perm dp_time _)). exact Hx.
      - apply (Permutation_in _ (Permutation_sym (gsort_perm dp_time _))). exact Hx. }
    assert (forall x, In x dps -> ok (dp_time x)) as Odps.
    { intros x Hx. apply Hdps in Hx. apply in_app_or in Hx.
      destruct Hx as [Hx|Hx]; apply in_map_iff in Hx; destruct Hx as (y & <- & Hy); cbn.
      - eapply valid_pulse_ok; eauto. now apply in_rev.
      - eapply valid_deme_ok; eauto. }
    assert (forall e, In e (fst sj) -> sjok names n dps e) as Qsj.
    { intros e He. destruct (Fsj e He) as [[]|Hs]. exact Hs. }
    exists (fst sz ++ fst sj ++ off ++ on), Li. split; [reflexivity|]. split; [|split; [exact HLi|]].
    - intros e He. apply in_app_or in He. destruct He as [He|He]; [|apply in_app_or in He; destruct He as [He|He]].
      + rewrite Esz in He. destruct (Psz e He) as ((j & _ & Hl) & d & ep & Hd & Hep & Ht). split.
        * rewrite Ht. apply ok_float. destruct (valid_deme_ok _ _ V Hd) as [_ Ho]. now apply Ho.
        * destruct e; cbn in Hl |- *; auto.
      + specialize (Qsj e He). destruct e; cbn in Qsj |- *; try contradiction.
        * destruct Qsj as (x & Hx & ->). split; [|exact Logic.I]. apply ok_float. now apply Odps.
        * destruct Qsj as ((x & Hx & ->) & _). split; [|exact Logic.I]. apply ok_float. now apply Odps.
      + apply in_app_or in He. destruct He as [He|He].
        * destruct (Foff e He) as [[]|(m & a & b & Hm & _ & _ & ->)]. cbn. split; [|exact Logic.I].
          apply ok_float. eapply valid_mig_ok; eauto.
        * destruct (Fon e He) as [[]|(m & a & b & Hm & _ & _ & ->)]. cbn. split; [|exact Logic.I].
          apply ok_float. eapply valid_mig_ok; eauto.
    - rewrite !filter_app, ELi.
      rewrite (filter_nil _ (fst sj)).
      2:{ intros e He. specialize (Qsj e He). destruct e; cbn in Qsj |- *; auto; contradiction. }
      rewrite (filter_nil _ off).
      2:{ intros e He. destruct (Foff e He) as [[]|(m & a & b & _ & _ & _ & ->)]. reflexivity. }
      rewrite (filter_nil _ on).
      2:{ intros e He. destruct (Fon e He) as [[]|(m & a & b & _ & _ & _ & ->)]. reflexivity. }
      now rewrite !app_nil_r.
  Qed.

  (* ================= the epochs of a valid deme are ordered ================= *)

  Lemma vepoch_ok ep : ValidEpoch ep -> ok (e_end ep) /\ ok (e_start ep).
  Proof. intro V. pose proof (ve_order _ V) as H. apply lt_true in H. tauto. Qed.

  Lemma chain_below l : forall s,
    (forall ep, In ep l -> ValidEpoch ep) -> Chain s l ->
    forall ep, In ep l -> nlt (e_end ep) s = true.
  Proof.
    induction l as [|a l IH]; intros s V C ep Hep; [destruct Hep|].
    destruct C as [Ca C]. pose proof (ve_order _ (V a (or_introl eq_refl))) as Oa.
    destruct Hep as [<-|Hep]; [nord|].
    assert (nlt (e_end ep) (e_end a) = true) as X.
    { apply IH; auto. intros x Hx. apply V. now right. }
    nord.
  Qed.

  Lemma chain_split pre e post : forall s,
    (forall ep, In ep pre -> ValidEpoch ep) -> Chain s (pre ++ e :: post) ->
    Chain (e_end e) post /\ nle (e_start e) s = true /\
    forall ep, In ep pre -> nle (e_start e) (e_end ep) = true.
  Proof.
    induction pre as [|a pre IH]; intros s V C.
    - cbn in C. destruct C as [Ce C]. split; [exact C|]. split; [nord|intros ep []].
    - cbn in C. destruct C as [Ca C].
      destruct (IH (e_end a)) as (C' & Hs & Hpre); [intros x Hx; apply V; now right|exact C|].
      pose proof (ve_order _ (V a (or_introl eq_refl))) as Oa.
      split; [exact C'|]. split; [nord|]. intros ep [<-|Hep]; auto.
  Qed.

  Lemma ends_sorted l : forall s,
    (forall ep, In ep l -> ValidEpoch ep) -> Chain s l -> SSorted e_end (rev l).
  Proof.
    induction l as [|a l IH]; intros s V C; [exact Logic.I|].
    destruct C as [Ca C]. cbn [rev].
    assert (forall ep, In ep l -> ValidEpoch ep) as V' by (intros x Hx; apply V; now right).
    apply SSorted_app.
    - eapply IH; eauto.
    - split; [intros x []|exact Logic.I].
    - intros x b Hx [<-|[]]. apply in_rev in Hx.
      pose proof (chain_below _ _ V' C x Hx) as X. nord.
  Qed.

  (* ================= size_events, epoch by epoch ================= *)

  Lemma size_events_cons N0 n4N0 j e rest size growth evs :
    size_events N0 n4N0 j (e :: rest) size growth = Ok evs ->
    exists alpha rest',
      growth_rate n4N0 e = Ok alpha /\
      size_events N0 n4N0 j rest (e_ssize e)
        (if nneq (if nneq size (e_esize e) then n0 else growth) alpha then alpha
         else (if nneq size (e_esize e) then n0 else growth)) = Ok rest' /\
      evs = (if nneq size (e_esize e)
             then [Evn (nfloat (e_end e)) j (nfloat (ndiv (e_esize e) N0)) true] else []) ++
            (if nneq (if nneq size (e_esize e) then n0 else growth) alpha
             then [Evg (nfloat (e_end e)) j (nfloat alpha)] else []) ++ rest'.
  Proof.
    intro H. cbn [size_events] in H. mbind H r1 Hr1. cbv zeta in H. mbind H alpha Ha. mbind H r2 Hr2.
    mbind H rest' Hrest. injection H as <-. exists alpha, rest'. split; [exact Ha|]. split; [exact Hrest|].
    f_equal; [|f_equal].
    - destruct (nneq size (e_esize e)).
      + mbind Hr1 x Hx. mbind Hr1 ev Hev. injection Hr1 as <-. apply mk_n_inv in Hev.
        apply pdiv_inv in Hx. now subst.
      + now injection Hr1 as <-.
    - match type of Hr2 with (if ?c then _ else _) = _ => destruct c end.
      + mbind Hr2 ev Hev. injection Hr2 as <-. apply mk_g_inv in Hev. now subst.
      + now injection Hr2 as <-.
  Qed.

  Lemma in_opt {A} (c : bool) (x a : A) : In a (if c then [x] else []) -> a = x.
  Proof. destruct c; [intros [<-|[]]; reflexivity|intros []]. Qed.

  Lemma size_events_sorted N0 n4N0 j eps : forall size growth evs,
    (forall ep, In ep eps -> ok (e_end ep)) -> SSorted e_end eps ->
    size_events N0 n4N0 j eps size growth = Ok evs -> SSorted ev_time evs.
  Proof.
    induction eps as [|e eps IH]; intros size growth evs Oe S H.
    - cbn in H. injection H as <-. exact Logic.I.
    - destruct (size_events_cons _ _ _ _ _ _ _ _ H) as (alpha & rest' & Ha & Hrest & ->).
      destruct S as [He S].
      assert (ok (e_end e)) as Oe0 by (apply Oe; now left).
      assert (forall ep, In ep eps -> ok (e_end ep)) as Oe' by (intros x Hx; apply Oe; now right).
      destruct (float_rk _ Oe0) as [Of Rf].
      rewrite app_assoc. apply SSorted_app.
      + apply (SSorted_const _ (nfloat (e_end e))); [exact Of|].
        intros a Ha'. apply in_app_or in Ha'.
        destruct Ha' as [Ha'|Ha']; apply in_opt in Ha'; subst a; reflexivity.
      + eapply IH; eauto.
      + intros a b Ha' Hb.
        assert (ev_time a = nfloat (e_end e)) as ->.
        { apply in_app_or in Ha'.
          destruct Ha' as [Ha'|Ha']; apply in_opt in Ha'; subst a; reflexivity. }
        destruct (size_events_spec _ _ _ _ _ _ _ Hrest b Hb) as (_ & ep & Hep & ->).
        specialize (He ep Hep). destruct (float_rk _ (Oe' ep Hep)) as [Of' Rf']. nord.
  Qed.

  (* to_ms's tracked growth rate agrees with the one ms holds *)
  Definition Inv (v : tri) (growth : num) : Prop :=
    snd (fst v) = nfloat growth \/ (snd (fst v) = n0 /\ growth = n0).

  (* the (size, growth) accumulator of size_events after a prefix of the walk *)
  Fixpoint walk_acc (n4N0 : num) (l : list epoch) (size growth : num) : res (num * num) :=
    match l with
    | [] => Ok (size, growth)
    | e :: rest =>
        alpha <- growth_rate n4N0 e ;;
        walk_acc n4N0 rest (e_ssize e)
          (if nneq (if nneq size (e_esize e) then n0 else growth) alpha then alpha
           else (if nneq size (e_esize e) then n0 else growth))
    end.

  Lemma walk_acc_size n4N0 l : forall size growth s' g',
    walk_acc n4N0 l size growth = Ok (s', g') ->
    s' = match rev l with [] => size | y :: _ => e_ssize y end.
  Proof.
    induction l as [|e l IH]; intros size growth s' g' H; cbn in H.
    - now injection H as <- _.
    - mbind H alpha Ha. apply IH in H. cbn [rev]. destruct (rev l); cbn; exact H.
  Qed.

  (* one epoch whose end is at or before T *)
  Lemma epoch_step N0 n4N0 j T e rest size growth evs v :
    size_events N0 n4N0 j (e :: rest) size growth = Ok evs ->
    nle (nfloat (e_end e)) T = true -> Inv v growth ->
    exists alpha g' rest' v',
      growth_rate n4N0 e = Ok alpha /\
      g' = (if nneq (if nneq size (e_esize e) then n0 else growth) alpha then alpha
            else (if nneq size (e_esize e) then n0 else growth)) /\
      size_events N0 n4N0 j rest (e_ssize e) g' = Ok rest' /\
      fold_left (sstep j) (filter (leT T) evs) v = fold_left (sstep j) (filter (leT T) rest') v' /\
      Inv v' g' /\ SameRate g' alpha /\
      (nneq size (e_esize e) = true ->
       fst (fst v') = nfloat (ndiv (e_esize e) N0) /\ snd v' = nfloat (e_end e)).
  Proof.
    intros H HT HI.
    destruct (size_events_cons _ _ _ _ _ _ _ _ H) as (alpha & rest' & Ha & Hrest & ->).
    pose proof (eq_refl_ok n0 ok_0) as E00.
    destruct (nneq size (e_esize e)) eqn:C1.
    - destruct (nneq n0 alpha) eqn:C2.
      + exists alpha, alpha, rest'. eexists. split; [exact Ha|]. split; [cbv iota; rewrite ?C2; reflexivity|]. split; [exact Hrest|].
        cbn [app filter]. unfold leT at 1 2. cbn [ev_time]. rewrite HT. cbn [fold_left sstep].
        rewrite Nat.eqb_refl. cbn [negb fst snd size3]. rewrite E00.
        split; [reflexivity|]. split; [left; reflexivity|]. split; [left; reflexivity|].
        intros _. split; reflexivity.
      + exists alpha, n0, rest'. eexists. split; [exact Ha|]. split; [cbv iota; rewrite ?C2; reflexivity|]. split; [exact Hrest|].
        cbn [app filter]. unfold leT at 1. cbn [ev_time]. rewrite HT. cbn [fold_left sstep].
        rewrite Nat.eqb_refl. cbn [negb].
        split; [reflexivity|]. split; [right; split; reflexivity|]. split.
        * right. unfold nneq in C2. now apply negb_false_iff in C2.
        * intros _. split; reflexivity.
    - destruct (nneq growth alpha) eqn:C2.
      + exists alpha, alpha, rest'. eexists. split; [exact Ha|]. split; [cbv iota; rewrite ?C2; reflexivity|]. split; [exact Hrest|].
        cbn [app filter]. unfold leT at 1. cbn [ev_time]. rewrite HT. cbn [fold_left sstep].
        rewrite Nat.eqb_refl.
        split; [reflexivity|]. split; [left; reflexivity|]. split; [left; reflexivity|].
        intro X. discriminate.
      + exists alpha, growth, rest', v. split; [exact Ha|]. split; [cbv iota; rewrite ?C2; reflexivity|]. split; [exact Hrest|].
        cbn [app].
        split; [reflexivity|]. split; [exact HI|]. split.
        * right. unfold nneq in C2. now apply negb_false_iff in C2.
        * intro X. discriminate.
  Qed.

  (* all the epochs of a prefix of the walk that ends at or before T *)
  Lemma walk_inv N0 n4N0 j T l1 l2 : forall size growth evs v,
    size_events N0 n4N0 j (l1 ++ l2) size growth = Ok evs ->
    (forall ep, In ep l1 -> nle (nfloat (e_end ep)) T = true) ->
    Inv v growth ->
    exists ev2 s' g' v', walk_acc n4N0 l1 size growth = Ok (s', g') /\
      size_events N0 n4N0 j l2 s' g' = Ok ev2 /\ Inv v' g' /\
      fold_left (sstep j) (filter (leT T) evs) v = fold_left (sstep j) (filter (leT T) ev2) v'.
  Proof.
    induction l1 as [|a l1 IH]; intros size growth evs v H HT HI.
    - exists evs, size, growth, v. cbn in *. auto.
    - cbn [app] in H.
      destruct (epoch_step _ _ _ T _ _ _ _ _ v H (HT a (or_introl eq_refl)) HI)
        as (alpha & g1 & rest' & v1 & Ha & Eg & Hrest & Ef & HI1 & _ & _).
      destruct (IH _ _ _ v1 Hrest (fun x Hx => HT x (or_intror Hx)) HI1)
        as (ev2 & s' & g' & v' & Hw & H2 & HI' & Ef').
      exists ev2, s', g', v'. split; [|split; [exact H2|split; [exact HI'|congruence]]].
      cbn [walk_acc]. rewrite Ha. cbn [bind]. rewrite <- Eg. exact Hw.
  Qed.

  (* ================= the ms state of population i at time T ================= *)

  Lemma ms_core g0 g N0 n evs T st i di :
    in_generations g0 = Ok g -> Valid g -> to_ms_unscaled g0 N0 = Ok (n, evs) -> ok T ->
    ms_at (mkCmd n true n0 [] evs) T = Ok st -> nth_error (g_demes g) i = Some di ->
    exists p Li, nth_error (st_pops st) i = Some p /\
      size_events N0 (nmul n4 N0) (S i) (rev (d_epochs di)) N0 n0 = Ok Li /\
      szf p = fold_left (sstep (S i)) (filter (leT T) Li) (n1, n0, n0).
  Proof.
    intros Hg V Hms OT Hat Hdi.
    destruct (to_ms_sizes _ _ _ _ _ _ _ Hg V Hms Hdi) as (Hn & U & Li & -> & HU & HLi & ELi).
    assert (forall e, In e U -> ok (ev_time e)) as OU by (intros e He; now apply HU).
    apply ms_at_sorted in Hat; [|exact OU].
    assert (i < n) as Hi by (rewrite Hn; apply nth_error_Some; congruence).
    assert (nth_error (st_pops (init_state (mkCmd n true n0 [] (sort_events U)))) i
            = Some (mkPop n1 n0 n0 n0 None)) as Hp0.
    { unfold init_state. cbn [st_pops c_npop]. now apply nth_error_repeat. }
    destruct (fold_szf T i _ _ _ _ (fun e He => proj2 (HU e (Permutation_in _ (sort_events_perm U) He))) Hat Hp0)
      as (p & Hp & Ep).
    exists p, Li. split; [exact Hp|]. split; [exact HLi|].
    rewrite Ep. change (szf (mkPop n1 n0 n0 n0 None)) with (n1, n0, n0).
    rewrite sstep_filter. f_equal.
    rewrite sort_events_g.
    rewrite (gsort_filter ev_time (leT T)) by exact OU.
    rewrite (gsort_filter ev_time (isSzj (S i))).
    2:{ intros e He. apply filter_In in He. apply OU. tauto. }
    rewrite filter_comm, ELi.
    apply gsort_id. apply SSorted_filter.
    assert (In di (g_demes g)) as Hin by (eapply nth_error_In; eauto).
    destruct (ValidDemes_in _ _ _ (v_demes _ V) Hin) as [e' Vd].
    eapply size_events_sorted; [| |exact HLi].
    - intros ep Hep. apply in_rev in Hep. apply vepoch_ok. now apply (vd_epochs _ _ Vd).
    - eapply ends_sorted; [exact (vd_epochs _ _ Vd)|exact (vd_chain _ _ Vd)].
  Qed.

  (* the common part of the two theorems: the walk up to and including the owning epoch *)
  Lemma ms_owner g0 g N0 n evs T st i di k e :
    in_generations g0 = Ok g -> Valid g ->
    to_ms_unscaled g0 N0 = Ok (n, evs) ->
    ok T ->
    ms_at (mkCmd n true n0 [] evs) T = Ok st ->
    nth_error (g_demes g) i = Some di ->
    nth_error (d_epochs di) k = Some e -> nlt T (e_start e) = true -> nle (e_end e) T = true ->
    exists p alpha g', nth_error (st_pops st) i = Some p /\
      growth_rate (nmul n4 N0) e = Ok alpha /\
      Inv (szf p) g' /\ SameRate g' alpha /\
      (nneq (match nth_error (d_epochs di) (S k) with Some y => e_ssize y | None => N0 end) (e_esize e) = true ->
       mp_size p = nfloat (ndiv (e_esize e) N0) /\ mp_t p = nfloat (e_end e)).
  Proof.
    intros Hg V Hms OT Hat Hdi Hk HTs HTe.
    destruct (ms_core _ _ _ _ _ _ _ _ _ Hg V Hms OT Hat Hdi) as (p & Li & Hp & HLi & Ep).
    assert (In di (g_demes g)) as Hin by (eapply nth_error_In; eauto).
    destruct (ValidDemes_in _ _ _ (v_demes _ V) Hin) as [e' Vd].
    destruct (nth_error_split _ _ Hk) as (pre & post & Eeps & Hlen).
    pose proof (vd_chain _ _ Vd) as C. pose proof (vd_epochs _ _ Vd) as VE.
    rewrite Eeps in C, VE, HLi.
    assert (forall ep, In ep pre -> ValidEpoch ep) as Vpre.
    { intros ep Hep. apply VE. apply in_or_app. now left. }
    assert (forall ep, In ep post -> ValidEpoch ep) as Vpost.
    { intros ep Hep. apply VE. apply in_or_app. right. now right. }
    assert (ValidEpoch e) as Ve by (apply VE; apply in_or_app; right; now left).
    destruct (chain_split _ _ _ _ Vpre C) as (Cpost & _ & Hpre).
    pose proof (chain_below _ _ Vpost Cpost) as Hpost.
    destruct (vepoch_ok _ Ve) as [Oee Oes].
    destruct (float_rk _ Oee) as [Ofe Rfe].
    rewrite rev_app_distr in HLi. cbn [rev] in HLi. rewrite <- app_assoc in HLi. cbn [app] in HLi.
    destruct (walk_inv _ _ _ T _ _ _ _ _ (n1, n0, n0) HLi) as (ev2 & s' & gg & v1 & Hw & H2 & HI1 & Ef1).
    { intros ep Hep. apply in_rev in Hep. specialize (Hpost ep Hep).
      destruct (float_rk _ (proj1 (vepoch_ok _ (Vpost ep Hep)))) as [Of Rf]. nord. }
    { right. split; reflexivity. }
    destruct (epoch_step _ _ _ T _ _ _ _ _ v1 H2) as (alpha & g' & rest' & v' & Ha & Eg & Hrest & Ef2 & HI2 & SR & Hjump).
    { nord. }
    { exact HI1. }
    assert (filter (leT T) rest' = []) as Enil.
    { apply filter_nil. intros x Hx.
      destruct (size_events_spec _ _ _ _ _ _ _ Hrest x Hx) as (_ & ep & Hep & Et).
      apply in_rev in Hep. specialize (Hpre ep Hep).
      destruct (float_rk _ (proj1 (vepoch_ok _ (Vpre ep Hep)))) as [Of Rf].
      unfold leT. rewrite Et. nord. }
    rewrite Enil in Ef2. cbn [fold_left] in Ef2.
    assert (szf p = v') as Epv by congruence.
    exists p, alpha, g'. split; [exact Hp|]. split; [exact Ha|]. rewrite Epv.
    split; [exact HI2|]. split; [exact SR|].
    intro Hj. apply walk_acc_size in Hw. rewrite rev_involutive in Hw.
    assert (nth_error (d_epochs di) (S k) = match post with [] => None | y :: _ => Some y end) as En.
    { rewrite Eeps, <- Hlen. rewrite nth_error_app2 by lia.
      replace (S (List.length pre) - List.length pre) with 1 by lia. cbn. now destruct post. }
    rewrite En in Hj.
    assert (nneq s' (e_esize e) = true) as Hj'.
    { rewrite Hw. destruct post; exact Hj. }
    destruct (Hjump Hj') as [J1 J2]. rewrite <- Epv in J1, J2. exact (conj J1 J2).
  Qed.

  Theorem to_ms_growth g0 g N0 n evs T st i di k e alpha :
    in_generations g0 = Ok g -> Valid g ->
    to_ms_unscaled g0 N0 = Ok (n, evs) ->
    ok T -> nle n0 T = true ->
    ms_at (mkCmd n true n0 [] evs) T = Ok st ->
    nth_error (g_demes g) i = Some di -> nlt T (d_start di) = true ->
    nth_error (d_epochs di) k = Some e -> nlt T (e_start e) = true -> nle (e_end e) T = true ->
    growth_rate (nmul n4 N0) e = Ok alpha ->
    exists p r, nth_error (st_pops st) i = Some p /\
      (mp_alpha p = nfloat r \/ (mp_alpha p = n0 /\ r = n0)) /\ SameRate r alpha.
  Proof.
    intros Hg V Hms OT HT0 Hat Hdi HTd Hk HTs HTe Ha.
    destruct (ms_owner _ _ _ _ _ _ _ _ _ _ _ Hg V Hms OT Hat Hdi Hk HTs HTe)
      as (p & alpha' & g' & Hp & Ha' & HI & SR & _).
    assert (alpha' = alpha) as -> by congruence.
    exists p, g'. split; [exact Hp|]. split; [exact HI|exact SR].
  Qed.

  Theorem to_ms_size_after_jump g0 g N0 n evs T st i di k e x :
    in_generations g0 = Ok g -> Valid g ->
    to_ms_unscaled g0 N0 = Ok (n, evs) ->
    ok T -> nle n0 T = true ->
    ms_at (mkCmd n true n0 [] evs) T = Ok st ->
    nth_error (g_demes g) i = Some di -> nlt T (d_start di) = true ->
    nth_error (d_epochs di) k = Some e -> nlt T (e_start e) = true -> nle (e_end e) T = true ->
    (* the size just after (younger than) the end of e: the start size of the next epoch, or N0 — the
       size ms gives every population at time 0 — when e is the deme's last epoch *)
    nneq (match nth_error (d_epochs di) (S k) with Some y => e_ssize y | None => N0 end) (e_esize e) = true ->
    pdiv (e_esize e) N0 = Ok x ->
    exists p, nth_error (st_pops st) i = Some p /\
      mp_size p = nfloat x /\ mp_t p = nfloat (e_end e).
  Proof.
    intros Hg V Hms OT HT0 Hat Hdi HTd Hk HTs HTe Hj Hx.
    destruct (ms_owner _ _ _ _ _ _ _ _ _ _ _ Hg V Hms OT Hat Hdi Hk HTs HTe)
      as (p & alpha' & g' & Hp & _ & _ & _ & J).
    apply pdiv_inv in Hx. subst x.
    exists p. split; [exact Hp|]. exact (J Hj).
  Qed.
End MsGrowth.

Print Assumptions to_ms_growth.
Print Assumptions to_ms_size_after_jump.
