(* Graph.in_generations (demes/demes.py:1983-2005) *)
From Coq Require Import Bool List String.
From Demes Require Import Base.Num Base.Py Model.MDM.
Import ListNotations.
Local Open Scope string_scope.
Local Open Scope list_scope.

Section InGen.
  Context {N : NumOps}.

  Definition epoch_ingen (gt : num) (e : epoch) : res epoch :=
    s <- pdiv (e_start e) gt ;; en <- pdiv (e_end e) gt ;;
    Ok (mkEpoch s en (e_ssize e) (e_esize e) (e_sf e) (e_self e) (e_clone e)).

  Definition deme_ingen (gt : num) (d : deme) : res deme :=
    s <- pdiv (d_start d) gt ;;
    es <- mapM (epoch_ingen gt) (d_epochs d) ;;
    Ok (mkDeme (d_name d) (d_desc d) s (d_anc d) (d_props d) es).

  Definition mig_ingen (gt : num) (m : mig) : res mig :=
    s <- pdiv (m_start m) gt ;; en <- pdiv (m_end m) gt ;;
    Ok (mkMig (m_src m) (m_dst m) s en (m_rate m)).

  Definition pulse_ingen (gt : num) (p : pulse) : res pulse :=
    t <- pdiv (p_time p) gt ;;
    Ok (mkPulse (p_srcs p) (p_dst p) t (p_props p)).

  Definition in_generations (g : graph) : res graph :=
    let gt := g_gt g in
    ds <- mapM (deme_ingen gt) (g_demes g) ;;
    ms <- mapM (mig_ingen gt) (g_migs g) ;;
    ps <- mapM (pulse_ingen gt) (g_pulses g) ;;
    Ok (mkGraph (g_desc g) "generations" n1 (g_doi g) (g_meta g) ds ms ps (g_index g)).
End InGen.
