(* Instrumented copy of the subset search of asdict_simplified (Model/Simplify.v,
   `search`): identical control flow, fuel discipline and results, but it also counts
   the candidate deme sets examined, i.e. the iterations of the inner
   "for deme_set in combinations(all_demes, i)" loop. *)
From Coq Require Import Bool List Ascii String PeanoNat.
From Demes Require Import Base.Num Base.Py Model.MDM Model.Resolve Model.Simplify.
Import ListNotations.
Local Open Scope string_scope.
Local Open Scope list_scope.

Section Cost.
  Context {N : NumOps}.

  Fixpoint search_cost (fuel : nat) (k : key) (all : list string) (i : nat) (s : sstate)
    : res (sstate * nat) :=
    match fuel with
    | O => Err RuntimeErr
    | S fuel' =>
        if Nat.leb 2 (List.length all) && Nat.leb 2 i then
          r <- foldM (try_set k) (combinations all i) (s, false) ;;
          let '(s', compressed) := r in
          let n := List.length (combinations all i) in
          if compressed then
            let all' := collapse (st_pairs s') in
            rc <- search_cost fuel' k all' (Nat.min i (List.length all')) s' ;;
            Ok (fst rc, n + snd rc)
          else
            rc <- search_cost fuel' k all (i - 1) s' ;;
            Ok (fst rc, n + snd rc)
        else Ok (s, 0)
    end.

  (* "every ordered pair of distinct members of ds is a migration pair": the test of try_set *)
  Definition clique (pairs : list (string * string)) (ds : list string) : bool :=
    forallb (fun p => mem_pair p pairs) (perms2 ds).
End Cost.

(* Pascal's triangle (Nat.binomial does not exist in Coq 8.16) *)
Fixpoint binomial (n k : nat) : nat :=
  match n, k with
  | _, O => 1
  | O, S _ => 0
  | S n', S k' => binomial n' k' + binomial n' k
  end.

(* sum_{m = j}^{j + d - 1} binomial n m *)
Fixpoint binomial_sum (n j d : nat) : nat :=
  match d with
  | O => 0
  | S d' => binomial n (j + d') + binomial_sum n j d'
  end.

(* sum_{m = j}^{n} binomial n m   (0 when j > n) *)
Definition binomial_from (n j : nat) : nat := binomial_sum n j (n + 1 - j).

(* ---- the ring of n demes ---- *)
Fixpoint unary (i : nat) : string :=
  match i with O => EmptyString | S i' => String "1"%char (unary i') end.
(* "d", "d1", "d11", ... *)
Definition name_of (i : nat) : string := String "d"%char (unary i).
Definition names (n : nat) : list string := map name_of (seq 0 n).
Definition ring_pairs (n : nat) : list (string * string) :=
  flat_map (fun i => [(name_of i, name_of (Nat.modulo (S i) n)); (name_of (Nat.modulo (S i) n), name_of i)])
           (seq 0 n).
