(* ms.build_graph (demes/ms.py:501-821) and the Builder helpers it uses
   (demes/demes.py:2792-2883): from a parsed ms command to the document handed to
   Graph.fromdict, then resolution. *)
From Coq Require Import Bool List String Ascii.
From Demes Require Import Base.Num Base.Py Model.MDM Model.Codec Model.MigMat Model.Resolve
  Model.Rename Model.MsOpt Spec.MsSem.
Import ListNotations.
Local Open Scope string_scope.
Local Open Scope list_scope.

(* "deme" ++ decimal(k) *)
Fixpoint digits (fuel n : nat) (acc : string) : string :=
  match fuel with
  | O => acc
  | S fuel' =>
      let d := String (ascii_of_nat (48 + Nat.modulo n 10)) acc in
      if Nat.ltb n 10 then d else digits fuel' (Nat.div n 10) d
  end.
Definition deme_name (k : nat) : string := "deme" ++ digits (S k) k "".

Section FromMs.
  Context {N : NumOps}.

  Record bepoch := mkBE {
    be_end : num; be_esize : num; be_ssize : option num; be_growth : option num }.
  Record bdeme := mkBD {
    bd_name : string; bd_start : num; bd_anc : option (list string);
    bd_props : option (list num); bd_epochs : list bepoch (* oldest first *) }.
  Record bpulse := mkBP { bp_src : string; bp_dst : string; bp_time : num; bp_prop : num }.

  Record bstate := mkB {
    b_n : nat;                          (* num_demes *)
    b_mms : list (list (list num));     (* mm_list, current (oldest) first *)
    b_ends : list num;                  (* mm_end_times *)
    b_joined : list nat;
    b_demes : list bdeme;
    b_pulses : list bpulse }.

  Definition growth_of (e : bepoch) : num := match be_growth e with Some x => x | None => n0 end.
  Definition memn (i : nat) (l : list nat) : bool := existsb (Nat.eqb i) l.

  (* convert_population_id *)
  Definition pid (s : bstate) (i : nat) : res nat :=
    raise_if (Nat.ltb i 1 || Nat.ltb (b_n s) i) ValueErr ;;;
    raise_if (memn (i - 1) (b_joined s)) ValueErr ;;;
    Ok (i - 1).

  (* epoch_resolve: returns the deme with its current epoch ready to be edited at the head *)
  Definition epoch_resolve (d : bdeme) (time : num) : res bdeme :=
    match bd_epochs d with
    | [] => Err IndexErr
    | e :: rest =>
        raise_if (negb (ngt (bd_start d) time && nge time (be_end e))) ValueErr ;;;
        if ngt time (be_end e) then
          let g := growth_of e in
          x <- pexp (nmul (nsub n0 g) (nsub time (be_end e))) ;;
          let sz := nmul (be_esize e) x in
          let old := mkBE (be_end e) (be_esize e) (Some sz) None in
          let new := mkBE time sz (be_ssize e) (be_growth e) in
          Ok (mkBD (bd_name d) (bd_start d) (bd_anc d) (bd_props d) (new :: old :: rest))
        else Ok d
    end.

  Definition edit_head (f : bepoch -> bepoch) (d : bdeme) : bdeme :=
    match bd_epochs d with
    | e :: rest => mkBD (bd_name d) (bd_start d) (bd_anc d) (bd_props d) (f e :: rest)
    | [] => d
    end.

  Definition set_growth (time g : num) (d : bdeme) : res bdeme :=
    match bd_epochs d with
    | [] => Err IndexErr
    | e :: _ =>
        if nneq (growth_of e) g then
          d' <- epoch_resolve d time ;;
          Ok (edit_head (fun e => mkBE (be_end e) (be_esize e) (be_ssize e) (Some g)) d')
        else Ok d
    end.

  Definition set_size (time size : num) (reset : bool) (d : bdeme) : res bdeme :=
    match bd_epochs d with
    | [] => Err IndexErr
    | e :: _ =>
        if nneq (growth_of e) n0 || nneq (be_esize e) size then
          d' <- epoch_resolve d time ;;
          Ok (edit_head (fun e => mkBE (be_end e) size (be_ssize e)
                                       (if reset then Some n0 else be_growth e)) d')
        else Ok d
    end.

  Fixpoint mapiM {A B} (i : nat) (f : nat -> A -> res B) (l : list A) : res (list B) :=
    match l with
    | [] => Ok []
    | x :: l' => y <- f i x ;; r <- mapiM (S i) f l' ;; Ok (y :: r)
    end.
  Fixpoint updM {A} (i : nat) (f : A -> res A) (l : list A) : res (list A) :=
    match l, i with
    | [], _ => Err IndexErr
    | x :: l', O => y <- f x ;; Ok (y :: l')
    | x :: l', S i' => r <- updM i' f l' ;; Ok (x :: r)
    end.

  Definition with_demes (s : bstate) (ds : list bdeme) : bstate :=
    mkB (b_n s) (b_mms s) (b_ends s) (b_joined s) ds (b_pulses s).

  (* migration_matrix_at: a fresh copy of the current matrix when time has advanced *)
  Definition matrix_at (s : bstate) (time : num) : bstate :=
    match b_mms s, b_ends s with
    | m :: _, e :: _ =>
        if ngt time e then mkB (b_n s) (m :: b_mms s) (time :: b_ends s) (b_joined s) (b_demes s) (b_pulses s)
        else s
    | _, _ => s
    end.
  Definition edit_matrix (f : list (list num) -> list (list num)) (s : bstate) : bstate :=
    match b_mms s with
    | m :: rest => mkB (b_n s) (f m :: rest) (b_ends s) (b_joined s) (b_demes s) (b_pulses s)
    | [] => s
    end.

  (* lineage_movements and split_join_params of one same-time group *)
  Record gstate := mkG { g_lm : list (list num); g_params : list (nat * nat * num);
                         g_first : nat (* populations with this index or above are created by -es in this group *) }.

  Definition rowupd (lm : list (list num)) (f : list num -> list num) := map f lm.

  Fixpoint retarget (params_rev : list (nat * nat * num)) (pi pj : nat)
    : option (list (nat * nat * num)) :=
    match params_rev with
    | [] => None
    | (g, h, q) :: rest =>
        if Nat.eqb h pi then Some ((g, pj, q) :: rest)
        else option_map (cons (g, h, q)) (retarget rest pi pj)
    end.

  Definition step (N0 : num) (time : num) (sg : bstate * gstate) (e : msev) : res (bstate * gstate) :=
    let '(s, gs) := sg in
    let n4N0 := nmul n4 N0 in
    match e with
    | EvG _ a =>
        g <- pdiv a n4N0 ;;
        ds <- mapiM 0 (fun j d => if memn j (b_joined s) then Ok d else set_growth time g d) (b_demes s) ;;
        Ok (with_demes s ds, gs)
    | Evg _ i a =>
        p <- pid s i ;; g <- pdiv a n4N0 ;;
        ds <- updM p (set_growth time g) (b_demes s) ;;
        Ok (with_demes s ds, gs)
    | EvN _ x =>
        let size := nmul x N0 in
        ds <- mapiM 0 (fun j d => if memn j (b_joined s) then Ok d else set_size time size true d) (b_demes s) ;;
        Ok (with_demes s ds, gs)
    | Evn _ i x timed =>
        p <- pid s i ;;
        ds <- updM p (set_size time (nmul x N0) timed) (b_demes s) ;;
        Ok (with_demes s ds, gs)
    | EvM _ x =>
        let s1 := matrix_at s time in
        let joined := b_joined s in
        (* x / (num_demes - 1), evaluated only when some entry is assigned *)
        let any := existsb (fun j => negb (memn j joined) &&
                                     existsb (fun k => negb (Nat.eqb j k) && negb (memn k joined))
                                             (seq 0 (b_n s))) (seq 0 (b_n s)) in
        v <- (if any then pdiv x (nat_num (b_n s - 1)) else Ok n0) ;;
        Ok (edit_matrix (fun m => mapi 0 (fun j row =>
                                            if memn j joined then row
                                            else mapi 0 (fun k y => if negb (Nat.eqb j k) && negb (memn k joined)
                                                                    then v else y) row) m) s1, gs)
    | Evm _ i j x =>
        pi <- pid s i ;; pj <- pid s j ;;
        raise_if (Nat.eqb pi pj) ValueErr ;;;
        Ok (edit_matrix (upd pi (upd pj (fun _ => x))) (matrix_at s time), gs)
    | Evma _ np m initial =>
        let np := if initial then b_n s else np in
        raise_if (negb (Nat.eqb np (b_n s))) ValueErr ;;;
        raise_if (negb (Nat.eqb (List.length (List.concat m)) (Nat.mul np np))) ValueErr ;;;
        let s1 := matrix_at s time in
        let joined := b_joined s in
        let m' := mapi 0 (fun j row => mapi 0 (fun k y =>
                            if Nat.eqb j k then n0
                            else if memn j joined || memn k joined then n0 else y) row) m in
        Ok (edit_matrix (fun _ => m') s1, gs)
    | Evj _ i j =>
        pi <- pid s i ;; pj <- pid s j ;;
        ds <- updM pi (fun d => Ok (mkBD (bd_name d) time (Some [deme_name (S pj)]) (bd_props d) (bd_epochs d)))
                   (b_demes s) ;;
        let lm := rowupd (g_lm gs) (fun row =>
                    let x := nth pi row n0 in
                    upd pi (fun _ => n0) (upd pj (fun y => nadd y x) row)) in
        let params := match retarget (rev (g_params gs)) pi pj with
                      | Some r => if Nat.ltb pi (g_first gs) then rev r ++ [(pi, pj, n1)] else rev r
                      | None => g_params gs ++ [(pi, pj, n1)]
                      end in
        let s1 := matrix_at (with_demes s ds) time in
        let s2 := edit_matrix (mapi 0 (fun r row => mapi 0 (fun c y =>
                                  if (Nat.eqb c pi && negb (Nat.eqb r pi)) || (Nat.eqb r pi && negb (Nat.eqb c pi))
                                  then n0 else y) row)) s1 in
        Ok (mkB (b_n s2) (b_mms s2) (b_ends s2) (pi :: b_joined s2) (b_demes s2) (b_pulses s2),
            mkG lm params (g_first gs))
    | Evs _ i p =>
        pp <- pid s i ;;
        let newp := b_n s in
        let nd := mkBD (deme_name (S newp)) ninf None None [mkBE time N0 None None] in
        let lm := rowupd (g_lm gs) (fun row =>
                    let x := nth pp row n0 in
                    upd newp (fun _ => nmul (nsub n1 p) x) (upd pp (fun y => nmul y p) row)) in
        let mms := map (fun m => map (fun row => row ++ [n0]) m ++ [repeat n0 (S newp)]) (b_mms s) in
        Ok (mkB (S (b_n s)) mms (b_ends s) (b_joined s) (b_demes s ++ [nd]) (b_pulses s),
            mkG lm (g_params gs ++ [(pp, newp, nsub n1 p)]) (g_first gs))
    end.

  (* after a group: ancestry or pulses from the collected parameters *)
  Definition finish_group (time : num) (s : bstate) (gs : gstate) : res bstate :=
    foldM (fun (s : bstate) (prm : nat * nat * num) =>
             let '(j, k, p) := prm in
             let row := nth j (g_lm gs) [] in
             let anc := filter (fun op => negb (Nat.eqb j (fst op)) && ngt (snd op) n0)
                               (mapi 0 (fun o x => (o, x)) row) in
             match anc with
             | [] => Ok s
             | _ =>
                 if neqb (nth j row n0) n0 && memn j (b_joined s) then
                   ds <- updM j (fun d => Ok (mkBD (bd_name d) (bd_start d)
                                                   (Some (map (fun op => deme_name (S (fst op))) anc))
                                                   (Some (map snd anc)) (bd_epochs d))) (b_demes s) ;;
                   Ok (with_demes s ds)
                 else
                   Ok (mkB (b_n s) (b_mms s) (b_ends s) (b_joined s) (b_demes s)
                           (b_pulses s ++ [mkBP (deme_name (S k)) (deme_name (S j)) time p]))
             end)
          (g_params gs) s.

  (* itertools.groupby on adjacent equal times *)
  Fixpoint group_by_time (l : list msev) : list (num * list msev) :=
    match l with
    | [] => []
    | e :: l' =>
        match group_by_time l' with
        | (t, g) :: rest => if neqb (ev_time e) t then (t, e :: g) :: rest
                            else (ev_time e, [e]) :: (t, g) :: rest
        | [] => [(ev_time e, [e])]
        end
    end.

  Definition is_split (e : msev) : bool := match e with Evs _ _ _ => true | _ => false end.

  Definition run_group (N0 : num) (s : bstate) (tg : num * list msev) : res bstate :=
    let '(t, evs) := tg in
    let time := nmul (nmul n4 N0) t in
    let n := b_n s + List.length (filter is_split evs) in
    let lm := mapi 0 (fun i (_ : unit) => mapi 0 (fun j (_ : unit) =>
                        if Nat.eqb i j && Nat.ltb i (b_n s) then n1 else n0) (repeat tt n)) (repeat tt n) in
    r <- foldM (step N0 time) evs (s, mkG lm [] (b_n s)) ;;
    finish_group time (fst r) (snd r).

  (* option-record validators (attrs) applied when the command line is parsed *)
  Definition valid_ev (e : msev) : res unit :=
    raise_if (nlt (ev_time e) n0) ValueErr ;;;
    match e with
    | EvG _ a => raise_if (nisinf a) ValueErr
    | Evg _ i a => raise_if (Nat.eqb i 0 || nisinf a) ValueErr
    | EvN _ x => raise_if (nlt x n0) ValueErr
    | Evn _ i x _ => raise_if (Nat.eqb i 0 || nlt x n0) ValueErr
    | EvM _ x => raise_if (nlt x n0) ValueErr
    | Evm _ i j x => raise_if (Nat.eqb i 0 || Nat.eqb j 0 || nlt x n0) ValueErr
    | Evma _ np _ _ => raise_if (Nat.eqb np 0) ValueErr
    | Evs _ i p => raise_if (Nat.eqb i 0 || negb (nle n0 p && nle p n1)) ValueErr
    | Evj _ i j => raise_if (Nat.eqb i 0 || Nat.eqb j 0) ValueErr
    end.

  (* Builder._add_migrations_from_matrices *)
  Record cur := mkCur { cu_j : nat; cu_k : nat; cu_idx : nat (* position in the output list *) }.
  Record bmig := mkBM { bm_src : string; bm_dst : string; bm_start : num; bm_end : num; bm_rate : num }.

  Definition migs_from_matrices (names : list string) (mms : list (list (list num))) (ends : list num)
    : list bmig :=
    let n := List.length names in
    let cells := flat_map (fun j => flat_map (fun k => if Nat.eqb j k then [] else [(j, k)]) (seq 0 n)) (seq 0 n) in
    let '(_, _, out) :=
      fold_left
        (fun (acc : num * list cur * list bmig) (me : list (list num) * num) =>
           let '(start, current, out) := acc in
           let '(m, en) := me in
           let '(current', out') :=
             fold_left
               (fun (co : list cur * list bmig) (jk : nat * nat) =>
                  let '(current, out) := co in
                  let '(j, k) := jk in
                  let rate := nth k (nth j m []) n0 in
                  match find (fun c => Nat.eqb (cu_j c) j && Nat.eqb (cu_k c) k) current with
                  | None =>
                      if nneq rate n0 then
                        (current ++ [mkCur j k (List.length out)],
                         out ++ [mkBM (nth k names "") (nth j names "") start en rate])
                      else (current, out)
                  | Some c =>
                      let drop := filter (fun c' => negb (Nat.eqb (cu_j c') j && Nat.eqb (cu_k c') k)) current in
                      if neqb rate n0 then (drop, out)
                      else
                        match nth_error out (cu_idx c) with
                        | Some mg =>
                            if neqb (bm_rate mg) rate then
                              (current, upd (cu_idx c) (fun mg => mkBM (bm_src mg) (bm_dst mg) (bm_start mg) en (bm_rate mg)) out)
                            else
                              (drop ++ [mkCur j k (List.length out)],
                               out ++ [mkBM (nth k names "") (nth j names "") start en rate])
                        | None => (current, out)
                        end
                  end)
               cells (current, out) in
           (en, current', out'))
        (combine mms ends) (ninf, [], []) in
    out.

  Definition opt_entry {A} (k : string) (f : A -> jv) (o : option A) : list (string * jv) :=
    match o with Some x => [(k, f x)] | None => [] end.

  Definition jv_of_bepoch (e : bepoch) : jv :=
    JDict ([("end_size", JNum (be_esize e)); ("end_time", JNum (be_end e))]
           ++ opt_entry "start_size" JNum (be_ssize e)).
  Definition jv_of_bdeme (d : bdeme) : jv :=
    JDict ([("name", JStr (bd_name d)); ("start_time", JNum (bd_start d))]
           ++ opt_entry "ancestors" jstrs (bd_anc d) ++ opt_entry "proportions" jnums (bd_props d)
           ++ [("epochs", JList (map jv_of_bepoch (bd_epochs d)))]).

  (* descending stable sort by start_time *)
  Fixpoint insert_bd (d : bdeme) (l : list bdeme) : list bdeme :=
    match l with
    | [] => [d]
    | y :: l' => if nlt (bd_start d) (bd_start y) then y :: insert_bd d l' else d :: l
    end.
  Definition sort_bdemes (l : list bdeme) : list bdeme := fold_right insert_bd [] l.

  Definition last_end (d : bdeme) : num :=
    match rev (bd_epochs d) with e :: _ => be_end e | [] => n0 end.

  Definition transient (d : bdeme) : bool :=
    negb (neqb (bd_start d) n0) && negb (nisinf (bd_start d)) && neqb (bd_start d) (last_end d).
  Definition referenced (pulses : list bpulse) (migs : list bmig) (current : list bdeme) (nm : string) : bool :=
    existsb (fun p => String.eqb (bp_src p) nm || String.eqb (bp_dst p) nm) pulses
    || existsb (fun m => String.eqb (bm_src m) nm || String.eqb (bm_dst m) nm) migs
    || existsb (fun d => match bd_anc d with Some l => mem nm l | None => false end) current.
  Fixpoint remove_transient (pulses : list bpulse) (migs : list bmig) (done_rev todo : list bdeme)
    : res (list bdeme) :=
    match todo with
    | [] => Ok (rev done_rev)
    | d :: rest =>
        if transient d then
          raise_if (referenced pulses migs (rev done_rev ++ d :: rest) (bd_name d)) AssertErr ;;;
          remove_transient pulses migs done_rev rest
        else remove_transient pulses migs (d :: done_rev) rest
    end.

  (* the document build_graph hands to Builder.resolve *)
  Definition build_doc (c : mscmd) (N0 : num) : res jv :=
    raise_if (Nat.eqb (c_npop c) 0) ValueErr ;;;
    raise_if (nlt (c_irate c) n0) ValueErr ;;;
    forM_ valid_ev (c_init c ++ c_events c) ;;;
    let n := c_npop c in
    m0 <- (if Nat.ltb 1 n then
             v <- pdiv (c_irate c) (nat_num (n - 1)) ;;
             Ok (mapi 0 (fun k (_ : unit) => mapi 0 (fun j (_ : unit) =>
                     nmul v (if Nat.eqb j k then n0 else n1)) (repeat tt n)) (repeat tt n))
           else Ok [[nf0]]) ;;
    let demes0 := map (fun j => mkBD (deme_name (S j)) ninf None None [mkBE n0 N0 None None]) (seq 0 n) in
    let s0 := mkB n [m0] [nf0] [] demes0 [] in
    s <- foldM (run_group N0) (group_by_time (c_init c ++ sort_events (c_events c))) s0 ;;
    (* growth rate of the oldest epochs *)
    ds <- mapM (fun d =>
                  match bd_epochs d with
                  | [] => Err IndexErr
                  | e :: rest =>
                      let g := growth_of e in
                      if nneq g n0 then
                        raise_if (nisinf (bd_start d)) ValueErr ;;;
                        x <- pexp (nmul (nsub n0 (nsub (bd_start d) (be_end e))) g) ;;
                        Ok (mkBD (bd_name d) (bd_start d) (bd_anc d) (bd_props d)
                                 (mkBE (be_end e) (be_esize e) (Some (nmul (be_esize e) x)) None :: rest))
                      else
                        Ok (mkBD (bd_name d) (bd_start d) (bd_anc d) (bd_props d)
                                 (mkBE (be_end e) (be_esize e) (Some (be_esize e)) None :: rest))
                  end) (b_demes s) ;;
    let names := map bd_name ds in
    let migs := migs_from_matrices names (b_mms s) (b_ends s) in
    migs' <- mapM (fun m => r <- pdiv (bm_rate m) (nmul n4 N0) ;;
                            Ok (mkBM (bm_src m) (bm_dst m) (bm_start m) (bm_end m) r)) migs ;;
    (* _remove_transient_demes: demes are examined in order; a transient deme must not be referenced by a
       pulse, a migration, or the ancestors of any deme still in the list (those removed before it are gone) *)
    kept0 <- remove_transient (b_pulses s) migs' [] ds ;;
    let kept := sort_bdemes kept0 in
    Ok (JDict ([("time_units", JStr "generations");
                ("demes", JList (map jv_of_bdeme kept));
                ("migrations", JList (map (fun m => JDict [("source", JStr (bm_src m)); ("dest", JStr (bm_dst m));
                                                           ("start_time", JNum (bm_start m)); ("end_time", JNum (bm_end m));
                                                           ("rate", JNum (bm_rate m))]) migs'))]
               ++ match b_pulses s with
                  | [] => []
                  | ps => [("pulses", JList (map (fun p => JDict [("sources", jstrs [bp_src p]); ("dest", JStr (bp_dst p));
                                                                  ("time", JNum (bp_time p)); ("proportions", jnums [bp_prop p])])
                                                 (rev ps)))]
                  end)).

  Definition build_graph (c : mscmd) (N0 : num) : res graph :=
    d <- build_doc c N0 ;; fromdict d.

  (* from_ms(..., deme_names=names) *)
  Definition from_ms (c : mscmd) (N0 : num) (names : option (list string)) : res graph :=
    g <- build_graph c N0 ;;
    match names with
    | None => Ok g
    | Some l =>
        raise_if (negb (Nat.eqb (List.length (nodup string_dec l)) (List.length (g_demes g)))) ValueErr ;;;
        let nm := combine (map (fun j => deme_name (S j)) (seq 0 (List.length l))) l in
        (* remap_deme_names asserts the keys are exactly the graph's deme names *)
        raise_if (negb (forallb (fun d => mem (d_name d) (map fst nm)) (g_demes g))
                  || negb (Nat.eqb (List.length nm) (List.length (g_demes g)))) AssertErr ;;;
        rename_demes nm g
    end.
End FromMs.
