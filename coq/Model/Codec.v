(* Graph.asdict (demes/demes.py:2364-2404) as a function to document values,
   and its inverse decoder used to ship graphs between the implementation and
   the extracted model. *)
From Coq Require Import Bool List String.
From Demes Require Import Base.Num Base.Py Model.MDM.
Import ListNotations.
Local Open Scope string_scope.
Local Open Scope list_scope.

Section Codec.
  Context {N : NumOps}.

  Definition jnum_of_bool (b : bool) : num := if b then n1 else n0.

  (* coerce_types on a leaf; attr.asdict recursion on containers *)
  Fixpoint coerce (v : jv) : jv :=
    match v with
    | JBool b => JNum (jnum_of_bool b)
    | JList l => JList (map coerce l)
    | JDict kv => JDict (map (fun p => (fst p, coerce (snd p))) kv)
    | _ => v
    end.

  Definition jstrs (l : list string) : jv := JList (map JStr l).
  Definition jnums (l : list num) : jv := JList (map JNum l).

  Definition jv_of_epoch (e : epoch) : jv :=
    JDict [("end_time", JNum (e_end e)); ("start_size", JNum (e_ssize e));
           ("end_size", JNum (e_esize e)); ("size_function", JStr (e_sf e));
           ("selfing_rate", JNum (e_self e)); ("cloning_rate", JNum (e_clone e))].

  Definition jv_of_deme (d : deme) : jv :=
    JDict [("name", JStr (d_name d)); ("description", JStr (d_desc d));
           ("start_time", JNum (d_start d)); ("ancestors", jstrs (d_anc d));
           ("proportions", jnums (d_props d));
           ("epochs", JList (map jv_of_epoch (d_epochs d)))].

  Definition jv_of_mig (m : mig) : jv :=
    JDict [("source", JStr (m_src m)); ("dest", JStr (m_dst m));
           ("start_time", JNum (m_start m)); ("end_time", JNum (m_end m));
           ("rate", JNum (m_rate m))].

  Definition jv_of_pulse (p : pulse) : jv :=
    JDict [("sources", jstrs (p_srcs p)); ("dest", JStr (p_dst p));
           ("time", JNum (p_time p)); ("proportions", jnums (p_props p))].

  (* Graph.asdict() *)
  Definition asdict (g : graph) : jv :=
    JDict [("description", JStr (g_desc g)); ("time_units", JStr (g_units g));
           ("generation_time", JNum (g_gt g)); ("doi", jstrs (g_doi g));
           ("metadata", coerce (g_meta g));
           ("demes", JList (map jv_of_deme (g_demes g)));
           ("migrations", JList (map jv_of_mig (g_migs g)));
           ("pulses", JList (map jv_of_pulse (g_pulses g)))].

  (* the name index, shipped next to asdict() by the harness *)
  Definition jv_of_index (ix : list (string * nat)) (nat_num : nat -> num) : jv :=
    JList (map (fun p => JList [JStr (fst p); JNum (nat_num (snd p))]) ix).

  (* ---- decoding ---- *)
  Definition jget (k : string) (v : jv) : res jv :=
    match v with
    | JDict kv => match assoc k kv with Some x => Ok x | None => Err KeyErr end
    | _ => Err TypeErr
    end.
  Definition as_num (v : jv) : res num :=
    match v with JNum x => Ok x | JBool b => Ok (jnum_of_bool b) | _ => Err TypeErr end.
  Definition as_str (v : jv) : res string :=
    match v with JStr s => Ok s | _ => Err TypeErr end.
  Definition as_list (v : jv) : res (list jv) :=
    match v with JList l => Ok l | _ => Err TypeErr end.
  Definition get_num k v := x <- jget k v ;; as_num x.
  Definition get_str k v := x <- jget k v ;; as_str x.
  Definition get_list k v := x <- jget k v ;; as_list x.
  Definition get_strs k v := l <- get_list k v ;; mapM as_str l.
  Definition get_nums k v := l <- get_list k v ;; mapM as_num l.

  Fixpoint epochs_of_jv (start : num) (l : list jv) : res (list epoch) :=
    match l with
    | [] => Ok []
    | v :: l' =>
        en <- get_num "end_time" v ;; ss <- get_num "start_size" v ;;
        es <- get_num "end_size" v ;; sf <- get_str "size_function" v ;;
        sr <- get_num "selfing_rate" v ;; cr <- get_num "cloning_rate" v ;;
        rest <- epochs_of_jv en l' ;;
        Ok (mkEpoch start en ss es sf sr cr :: rest)
    end.

  Definition deme_of_jv (v : jv) : res deme :=
    nm <- get_str "name" v ;; ds <- get_str "description" v ;;
    st <- get_num "start_time" v ;; an <- get_strs "ancestors" v ;;
    pr <- get_nums "proportions" v ;; el <- get_list "epochs" v ;;
    es <- epochs_of_jv st el ;;
    Ok (mkDeme nm ds st an pr es).

  Definition mig_of_jv (v : jv) : res mig :=
    s <- get_str "source" v ;; d <- get_str "dest" v ;;
    st <- get_num "start_time" v ;; en <- get_num "end_time" v ;;
    r <- get_num "rate" v ;; Ok (mkMig s d st en r).

  Definition pulse_of_jv (v : jv) : res pulse :=
    s <- get_strs "sources" v ;; d <- get_str "dest" v ;;
    t <- get_num "time" v ;; p <- get_nums "proportions" v ;;
    Ok (mkPulse s d t p).

  Definition index_of_jv (num_nat : num -> nat) (v : jv) : res (list (string * nat)) :=
    l <- as_list v ;;
    mapM (fun p => match p with
                   | JList [JStr k; JNum i] => Ok (k, num_nat i)
                   | _ => Err TypeErr end) l.

  (* inverse of (asdict, index); [ix] is the optional shipped index *)
  Definition graph_of_jv (num_nat : num -> nat) (v : jv) : res graph :=
    ds <- get_str "description" v ;; tu <- get_str "time_units" v ;;
    gt <- get_num "generation_time" v ;; doi <- get_strs "doi" v ;;
    md <- jget "metadata" v ;;
    dl <- get_list "demes" v ;; demes <- mapM deme_of_jv dl ;;
    ml <- get_list "migrations" v ;; migs <- mapM mig_of_jv ml ;;
    pl <- get_list "pulses" v ;; pulses <- mapM pulse_of_jv pl ;;
    ixv <- jget "_index" v ;; ix <- index_of_jv num_nat ixv ;;
    Ok (mkGraph ds tu gt doi md demes migs pulses ix).
End Codec.
