(* Graph.asdict(keep_empty_fields=False) and Graph.asdict_simplified
   (demes/demes.py:2364-2540) *)
From Coq Require Import Bool List String.
From Demes Require Import Base.Num Base.Py Model.MDM Model.Codec Model.Resolve.
Import ListNotations.
Local Open Scope string_scope.
Local Open Scope list_scope.

Section Simplify.
  Context {N : NumOps}.

  (* a directional migration entry of the simplified dictionary *)
  Record smig := mkSmig {
    sm_src : string; sm_dst : string; sm_rate : num;
    sm_start : option num; sm_end : option num }.
  (* a symmetric migration entry *)
  Record symmig := mkSym {
    sy_demes : list string; sy_rate : num; sy_start : option num; sy_end : option num }.

  Definition key := (num * option num * option num)%type.
  Definition onum_eqb (a b : option num) : bool :=
    match a, b with
    | None, None => true
    | Some x, Some y => neqb x y
    | _, _ => false
    end.
  Definition key_eqb (a b : key) : bool :=
    let '(r1, s1, e1) := a in let '(r2, s2, e2) := b in
    neqb r1 r2 && onum_eqb s1 s2 && onum_eqb e1 e2.
  Definition key_of (m : smig) : key := (sm_rate m, sm_start m, sm_end m).

  Definition pair_eqb (a b : string * string) : bool :=
    String.eqb (fst a) (fst b) && String.eqb (snd a) (snd b).
  Definition smig_eqb (a b : smig) : bool :=           (* dict == dict *)
    String.eqb (sm_src a) (sm_src b) && String.eqb (sm_dst a) (sm_dst b)
    && key_eqb (key_of a) (key_of b).

  (* list.remove(x): drop the first equal element, ValueError when absent *)
  Fixpoint remove_first {A} (eqb : A -> A -> bool) (x : A) (l : list A) : res (list A) :=
    match l with
    | [] => Err ValueErr
    | y :: l' => if eqb y x then Ok l'
                 else r <- remove_first eqb x l' ;; Ok (y :: r)
    end.

  Fixpoint combinations {A} (l : list A) (k : nat) : list (list A) :=
    match k, l with
    | O, _ => [[]]
    | S _, [] => []
    | S k', x :: l' => map (cons x) (combinations l' k') ++ combinations l' k
    end.

  (* collapse_demes *)
  Definition collapse (pairs : list (string * string)) : list string :=
    fold_left (fun acc p =>
                 let acc := if mem (fst p) acc then acc else acc ++ [fst p] in
                 if mem (snd p) acc then acc else acc ++ [snd p]) pairs [].

  Definition mem_pair (p : string * string) (l : list (string * string)) : bool :=
    existsb (pair_eqb p) l.

  (* drop a bound that equals the coexistence bound of the pair *)
  Definition strip_bounds (g : graph) (m : mig) : res smig :=
    s <- lookup g (m_src m) ;; d <- lookup g (m_dst m) ;;
    es <- d_end s ;; ed <- d_end d ;;
    let hi := pymin (d_start s) (d_start d) in
    let lo := pymax es ed in
    Ok (mkSmig (m_src m) (m_dst m) (m_rate m)
               (if neqb (m_start m) hi then None else Some (m_start m))
               (if neqb (m_end m) lo then None else Some (m_end m))).

  (* rate_sets: insertion-ordered dict  key -> list of (source, dest) *)
  Fixpoint add_rate_set (k : key) (p : string * string)
           (rs : list (key * list (string * string))) : list (key * list (string * string)) :=
    match rs with
    | [] => [(k, [p])]
    | (k', ps) :: rs' => if key_eqb k' k then (k', ps ++ [p]) :: rs'
                         else (k', ps) :: add_rate_set k p rs'
    end.

  Record sstate := mkS {
    st_sym : list symmig; st_asym : list smig; st_pairs : list (string * string) }.

  (* one candidate deme_set of the inner "for deme_set in combinations(...)" loop *)
  Definition try_set (k : key) (st : sstate * bool) (ds : list string) : res (sstate * bool) :=
    let '(s, compressed) := st in
    let perms := perms2 ds in
    if forallb (fun p => mem_pair p (st_pairs s)) perms then
      s' <- foldM (fun (s : sstate) p =>
                     let '(r, ks, ke) := k in
                     a <- remove_first smig_eqb (mkSmig (fst p) (snd p) r ks ke) (st_asym s) ;;
                     ps <- remove_first pair_eqb p (st_pairs s) ;;
                     Ok (mkS (st_sym s) a ps)) perms s ;;
      let '(r, ks, ke) := k in
      Ok (mkS (st_sym s' ++ [mkSym ds r ks ke]) (st_asym s') (st_pairs s'), true)
    else Ok (s, compressed).

  (* the "while len(all_demes) >= 2 and i >= 2" loop, on explicit fuel *)
  Fixpoint search (fuel : nat) (k : key) (all : list string) (i : nat) (s : sstate) : res sstate :=
    match fuel with
    | O => Err RuntimeErr                      (* out of fuel: never reached, see simplify_fuel *)
    | S fuel' =>
        if Nat.leb 2 (List.length all) && Nat.leb 2 i then
          r <- foldM (try_set k) (combinations all i) (s, false) ;;
          let '(s', compressed) := r in
          if compressed then
            let all' := collapse (st_pairs s') in
            search fuel' k all' (Nat.min i (List.length all')) s'
          else search fuel' k all (i - 1) s'
        else Ok s
    end.

  Definition simplify_migrations (g : graph) : res (list symmig * list smig) :=
    stripped <- mapM (strip_bounds g) (g_migs g) ;;
    let rate_sets := fold_left (fun rs m => add_rate_set (key_of m) (sm_src m, sm_dst m) rs)
                               stripped [] in
    r <- foldM (fun (sa : list symmig * list smig) (kp : key * list (string * string)) =>
                  let '(k, pairs) := kp in
                  if Nat.eqb (List.length pairs) 1 then Ok sa
                  else
                    let all := collapse pairs in
                    s <- search (List.length all + List.length pairs + 1) k all (List.length all)
                                (mkS (fst sa) (snd sa) pairs) ;;
                    Ok (st_sym s, st_asym s))
               rate_sets ([], stripped) ;;
    Ok r.

  (* ---- dictionary assembly ---- *)
  Definition opt_field (k : string) (o : option num) : list (string * jv) :=
    match o with Some x => [(k, JNum x)] | None => [] end.
  Definition nonempty_str (k : string) (s : string) : list (string * jv) :=
    if String.eqb s "" then [] else [(k, JStr s)].
  Definition nonempty_list (k : string) (l : list jv) : list (string * jv) :=
    match l with [] => [] | _ => [(k, JList l)] end.

  Definition jv_of_sym (s : symmig) : jv :=
    JDict ([("demes", jstrs (sy_demes s)); ("rate", JNum (sy_rate s))]
           ++ opt_field "start_time" (sy_start s) ++ opt_field "end_time" (sy_end s)).
  (* directional entries keep the field order source, dest, start_time, end_time, rate *)
  Definition jv_of_smig (m : smig) : jv :=
    JDict ([("source", JStr (sm_src m)); ("dest", JStr (sm_dst m))]
           ++ opt_field "start_time" (sm_start m) ++ opt_field "end_time" (sm_end m)
           ++ [("rate", JNum (sm_rate m))]).

  Definition simp_epoch (e : epoch) : jv :=
    JDict ([("end_time", JNum (e_end e)); ("start_size", JNum (e_ssize e))]
           ++ (if neqb (e_ssize e) (e_esize e) then [] else [("end_size", JNum (e_esize e))])
           ++ (if String.eqb (e_sf e)
                             (if neqb (e_ssize e) (e_esize e) then "constant" else "exponential")
               then [] else [("size_function", JStr (e_sf e))])
           ++ (if neqb (e_self e) n0 then [] else [("selfing_rate", JNum (e_self e))])
           ++ (if neqb (e_clone e) n0 then [] else [("cloning_rate", JNum (e_clone e))])).

  Definition simp_deme (g : graph) (d : deme) : res jv :=
    drop_start <-
      (if nisinf (d_start d) then Ok true
       else match d_anc d with
            | [a] => ad <- lookup g a ;; ea <- d_end ad ;; Ok (neqb ea (d_start d))
            | _ => Ok false
            end) ;;
    (* len(ancestors) == 1 and proportions == [1] *)
    let single := match d_anc d, d_props d with [_], [p] => neqb p n1 | _, _ => false end in
    Ok (JDict ([("name", JStr (d_name d))] ++ nonempty_str "description" (d_desc d)
               ++ (if drop_start then [] else [("start_time", JNum (d_start d))])
               ++ nonempty_list "ancestors" (map JStr (d_anc d))
               ++ (if single then [] else nonempty_list "proportions" (map JNum (d_props d)))
               ++ [("epochs", JList (map simp_epoch (d_epochs d)))])).

  Definition meta_nonempty (v : jv) : list (string * jv) :=
    match v with JDict [] => [] | _ => [("metadata", coerce v)] end.

  (* Graph.asdict_simplified() *)
  Definition asdict_simplified (g : graph) : res jv :=
    demes <- mapM (simp_deme g) (g_demes g) ;;
    migs <- (match g_migs g with
             | [] => Ok []
             | _ => sa <- simplify_migrations g ;;
                    Ok [("migrations", JList (map jv_of_sym (fst sa) ++ map jv_of_smig (snd sa)))]
             end) ;;
    Ok (JDict (nonempty_str "description" (g_desc g)
               ++ [("time_units", JStr (g_units g)); ("generation_time", JNum (g_gt g))]
               ++ nonempty_list "doi" (map JStr (g_doi g))
               ++ meta_nonempty (g_meta g)
               ++ [("demes", JList demes)] ++ migs
               ++ nonempty_list "pulses" (map jv_of_pulse (g_pulses g)))).
End Simplify.
