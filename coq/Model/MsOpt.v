(* ms option records (demes/ms.py:99-301) as structured events.  Population
   indices are 1-based, as on the ms command line.  Times and parameters are in
   ms units (4*N0 generations, N0 individuals, 4*N0*m). *)
From Coq Require Import Bool List String.
From Demes Require Import Base.Num Base.Py.
Import ListNotations.

Section MsOpt.
  Context {N : NumOps}.

  Inductive msev :=
  | EvG (t alpha : num)                              (* -G a      | -eG t a *)
  | Evg (t : num) (i : nat) (alpha : num)            (* -g i a    | -eg t i a *)
  | EvN (t x : num)                                  (*             -eN t x *)
  | Evn (t : num) (i : nat) (x : num) (timed : bool) (* -n i x    | -en t i x (timed) *)
  | EvM (t x : num)                                  (*             -eM t x *)
  | Evm (t : num) (i j : nat) (x : num)              (* -m i j x  | -em t i j x *)
  | Evma (t : num) (npop : nat) (m : list (list num)) (initial : bool)
                                                     (* -ma ...   | -ema t npop ...; diagonal ignored *)
  | Evs (t : num) (i : nat) (p : num)                (*             -es t i p *)
  | Evj (t : num) (i j : nat).                       (*             -ej t i j *)

  Definition ev_time (e : msev) : num :=
    match e with
    | EvG t _ | Evg t _ _ | EvN t _ | Evn t _ _ _ | EvM t _ | Evm t _ _ _
    | Evma t _ _ _ | Evs t _ _ | Evj t _ _ => t
    end.

  Definition set_time (e : msev) (t : num) : msev :=
    match e with
    | EvG _ a => EvG t a | Evg _ i a => Evg t i a | EvN _ x => EvN t x
    | Evn _ i x b => Evn t i x b | EvM _ x => EvM t x | Evm _ i j x => Evm t i j x
    | Evma _ n m b => Evma t n m b | Evs _ i p => Evs t i p | Evj _ i j => Evj t i j
    end.

  (* a parsed command line: -I, the time-zero options in command-line order, the
     timed events in command-line order *)
  Record mscmd := mkCmd {
    c_npop : nat;                 (* 1 when -I is absent *)
    c_structure : bool;           (* -I given *)
    c_irate : num;                (* island-model rate of -I, 0 when absent *)
    c_init : list msev;
    c_events : list msev }.

  (* events.sort(key=t): stable, ascending (fold_right inserts from the right, so an element goes
     before the already placed elements of equal time) *)
  Fixpoint insert_ev (e : msev) (l : list msev) : list msev :=
    match l with
    | [] => [e]
    | f :: l' => if nlt (ev_time f) (ev_time e) then f :: insert_ev e l' else e :: l
    end.
  Definition sort_events (l : list msev) : list msev := fold_right insert_ev [] l.
End MsOpt.
