(* A total, computable validator: [validb g] decides the declarative predicate
   [Valid g] of Spec/Valid.v (proved in Proofs/ValidbProofs.v).  Structural
   recursion only; meant to be extracted and run on graphs. *)
From Coq Require Import Bool List String Arith.
From Demes Require Import Base.Num Base.Py Model.MDM Model.MigMat Spec.Valid.
Import ListNotations.
Local Open Scope string_scope.
Local Open Scope list_scope.

Section Validb.
  Context {N : NumOps}.

  Definition pos_finb (x : num) : bool := nlt n0 x && negb (nisinf x).
  Definition in_unitb (x : num) : bool := nle n0 x && nle x n1.
  Definition in_unit_lob (x : num) : bool := nlt n0 x && nle x n1.

  Definition memb (s : string) (l : list string) : bool := existsb (String.eqb s) l.

  Fixpoint nodupb (l : list string) : bool :=
    match l with
    | [] => true
    | x :: l' => negb (memb x l') && nodupb l'
    end.

  Definition is_nil {A} (l : list A) : bool :=
    match l with [] => true | _ :: _ => false end.

  Definition valid_epochb (e : epoch) : bool :=
    nle n0 (e_end e) && negb (nisinf (e_end e)) && nlt (e_end e) (e_start e)
    && pos_finb (e_ssize e) && pos_finb (e_esize e)
    && memb (e_sf e) ["constant"; "exponential"; "linear"]
    && (if String.eqb (e_sf e) "constant" then neqb (e_ssize e) (e_esize e) else true)
    && (if nisinf (e_start e) then neqb (e_ssize e) (e_esize e) else true)
    && in_unitb (e_self e) && in_unitb (e_clone e).

  Fixpoint chainb (s : num) (es : list epoch) : bool :=
    match es with
    | [] => true
    | e :: es' => neqb (e_start e) s && chainb (e_end e) es'
    end.

  Definition aliveb (a : deme) (t : num) : bool :=
    match d_end a with
    | Ok ea => nlt t (d_start a) && nle ea t
    | Err _ => false
    end.

  Definition valid_demeb (earlier : list deme) (d : deme) : bool :=
    is_identifier (d_name d)
    && negb (memb (d_name d) (map d_name earlier))
    && nlt n0 (d_start d)
    && nodupb (d_anc d)
    && forallb (fun a => existsb (fun ad => String.eqb (d_name ad) a
                                            && aliveb ad (d_start d)) earlier)
               (d_anc d)
    && Bool.eqb (is_nil (d_anc d)) (nisinf (d_start d))
    && Nat.eqb (List.length (d_props d)) (List.length (d_anc d))
    && forallb in_unit_lob (d_props d)
    && (if is_nil (d_props d) then true else isclose0 (pysum (d_props d)) nf1)
    && negb (is_nil (d_epochs d))
    && chainb (d_start d) (d_epochs d)
    && forallb valid_epochb (d_epochs d).

  Fixpoint valid_demesb (earlier rest : list deme) : bool :=
    match rest with
    | [] => true
    | d :: rest' => valid_demeb earlier d && valid_demesb (earlier ++ [d]) rest'
    end.

  (* run [f lo hi] on the closed coexistence interval of a and b *)
  Definition coexistb (a b : deme) (f : num -> num -> bool) : bool :=
    match d_end a, d_end b with
    | Ok ea, Ok eb =>
        f (if nlt ea eb then eb else ea)
          (if nlt (d_start b) (d_start a) then d_start b else d_start a)
    | _, _ => false
    end.

  Definition withinb (lo hi t : num) : bool := nle lo t && nle t hi.

  Definition valid_migb (g : graph) (m : mig) : bool :=
    negb (String.eqb (m_src m) (m_dst m))
    && match find_deme g (m_src m), find_deme g (m_dst m) with
       | Some s, Some d =>
           coexistb s d (fun lo hi => withinb lo hi (m_start m) && withinb lo hi (m_end m))
       | _, _ => false
       end
    && nlt (m_end m) (m_start m)
    && negb (nisinf (m_end m))
    && nle n0 (m_end m)
    && in_unitb (m_rate m).

  (* two migrations of the same ordered pair have a common active time *)
  Definition overlapb (a b : mig) : bool :=
    String.eqb (m_src a) (m_src b) && String.eqb (m_dst a) (m_dst b)
    && nlt (m_end a) (m_start b) && nlt (m_end b) (m_start a).

  Fixpoint no_overlapb (ms : list mig) : bool :=
    match ms with
    | [] => true
    | a :: ms' => forallb (fun b => negb (overlapb a b)) ms' && no_overlapb ms'
    end.

  Definition row_okb (row : list num) : bool :=
    let s := pysum row in nle s n1 || isclose0 s n1.

  Definition ingressb (g : graph) : bool :=
    match migration_matrices g with
    | Ok r => forallb (fun mm => forallb row_okb mm) (fst r)
    | Err _ => false
    end.

  Definition valid_pulseb (g : graph) (p : pulse) : bool :=
    negb (is_nil (p_srcs p))
    && nodupb (p_srcs p)
    && negb (memb (p_dst p) (p_srcs p))
    && Nat.eqb (List.length (p_props p)) (List.length (p_srcs p))
    && forallb in_unit_lob (p_props p)
    && negb (nlt n1 (pysum (p_props p)))
    && pos_finb (p_time p)
    && match find_deme g (p_dst p) with
       | Some d =>
           match d_end d with
           | Ok ed => negb (neqb (p_time p) ed)
           | Err _ => false
           end
           && forallb (fun s =>
                         match find_deme g s with
                         | Some sd =>
                             coexistb sd d (fun lo hi => withinb lo hi (p_time p))
                             && negb (neqb (p_time p) (d_start sd))
                         | None => false
                         end) (p_srcs p)
       | None => false
       end.

  Fixpoint pulses_sortedb (ps : list pulse) : bool :=
    match ps with
    | p :: ((q :: _) as ps') => nle (p_time q) (p_time p) && pulses_sortedb ps'
    | _ => true
    end.

  Fixpoint index_eqb (l1 l2 : list (string * nat)) : bool :=
    match l1, l2 with
    | [], [] => true
    | (s1, i1) :: l1', (s2, i2) :: l2' =>
        String.eqb s1 s2 && Nat.eqb i1 i2 && index_eqb l1' l2'
    | _, _ => false
    end.

  Definition validb (g : graph) : bool :=
    negb (String.eqb (g_units g) "")
    && pos_finb (g_gt g)
    && (if String.eqb (g_units g) "generations" then neqb (g_gt g) n1 else true)
    && forallb (fun s => negb (String.eqb s "")) (g_doi g)
    && is_mapping (g_meta g)
    && negb (is_nil (g_demes g))
    && valid_demesb [] (g_demes g)
    && forallb (valid_migb g) (g_migs g)
    && no_overlapb (g_migs g)
    && ingressb g
    && forallb (valid_pulseb g) (g_pulses g)
    && pulses_sortedb (g_pulses g)
    && index_eqb (g_index g) (index_from 0 (g_demes g)).
End Validb.
