(* demes/__main__.py: ParseCommand.__call__, load_and_count_documents (lines 78-135) and
   MsCommand.__call__ (189-191), with the renderers abstract.  The input file is a lazy
   stream of documents, each of which may fail to load; output is what gets printed. *)
From Coq Require Import Bool List Arith Lia.
From Demes Require Import Base.Num Base.Py.
Import ListNotations.

Section Cli.
  Context {G : Type}.            (* graphs *)
  Context {T : Type}.            (* printed text *)
  Variable dump_yaml : bool -> G -> T.          (* simplified -> text of one YAML document *)
  Variable dump_json : bool -> G -> res T.      (* may fail (unserialisable metadata) *)
  Variable to_ms : G -> res T.                  (* for the given reference size *)
  Variable dump_doc_multi : bool -> G -> T.     (* one document of dump_all *)

  Inductive fmt := FYaml | FJson | FMs.

  (* output_format: "json" if args.json else ("ms" if args.ms is given) else "yaml".
     [ms_given] = the --ms option was given (with any value, 0 included). *)
  Definition output_format (json ms_given : bool) : fmt :=
    if json then FJson else if ms_given then FMs else FYaml.

  (* a lazy stream: documents load one at a time; loading may raise *)
  Definition stream := list (res G).

  (* load_and_count_documents: pull at most two documents *)
  Fixpoint pull (k : nat) (s : stream) : res (list G * stream) :=
    match k, s with
    | O, _ => Ok ([], s)
    | S _, [] => Ok ([], [])
    | S k', Err e :: _ => Err e
    | S k', Ok g :: rest => r <- pull k' rest ;; Ok (g :: fst r, snd r)
    end.

  (* what is printed: the pieces written to stdout in order, and whether the command then failed *)
  Record result := mkR { r_out : list T; r_err : option err }.

  (* dump_all over chain(first, rest): writes each document as it is produced.
     Originally written as a single Fixpoint recursing on [first] and then, once [first] is
     exhausted, on [rest]:
       Fixpoint dump_all simplified first rest := match first with
         | g :: first' => ... dump_all simplified first' rest ...
         | [] => match rest with ... | Ok g :: rest' => ... dump_all simplified [] rest' ... end end.
     Coq rejects that ("Cannot guess decreasing argument of fix": neither argument decreases
     structurally in every recursive call), so the tail over [rest] is a separate Fixpoint
     [dump_rest]; [dump_all s [] rest] unfolds to exactly the same equations as before. *)
  Fixpoint dump_rest (simplified : bool) (rest : stream) : result :=
    match rest with
    | [] => mkR [] None
    | Err e :: _ => mkR [] (Some e)
    | Ok g :: rest' =>
        let r := dump_rest simplified rest' in
        mkR (dump_doc_multi simplified g :: r_out r) (r_err r)
    end.

  Fixpoint dump_all (simplified : bool) (first : list G) (rest : stream) : result :=
    match first with
    | g :: first' =>
        let r := dump_all simplified first' rest in
        mkR (dump_doc_multi simplified g :: r_out r) (r_err r)
    | [] => dump_rest simplified rest
    end.

  Definition parse_command (json ms_given simplified : bool) (s : stream) : result :=
    match pull 2 s with
    | Err e => mkR [] (Some e)
    | Ok (first, rest) =>
        match first with
        | [] => mkR [] None                                        (* empty input: nothing *)
        | [g] =>
            if ms_given then
              match to_ms g with Ok t => mkR [t] None | Err e => mkR [] (Some e) end
            else
              match output_format json ms_given with
              | FJson => match dump_json simplified g with Ok t => mkR [t] None | Err e => mkR [] (Some e) end
              | _ => mkR [dump_yaml simplified g] None
              end
        | _ =>
            match output_format json ms_given with
            | FYaml => dump_all simplified first rest
            | _ => mkR [] (Some RuntimeErr)
            end
        end
    end.

  (* ---------------- statements to prove ---------------- *)

  (* the look-ahead loses, duplicates and reorders nothing: first ++ rest is the stream *)
  Theorem pull_chain k s first rest :
    pull k s = Ok (first, rest) -> map Ok first ++ rest = s /\ List.length first <= k.
  Proof.
    revert s first rest. induction k as [|k IH]; intros s first rest H.
    - cbn in H. inversion H; subst. split; [reflexivity | cbn; lia].
    - destruct s as [|[g|e] s']; cbn in H.
      + inversion H; subst. split; [reflexivity | cbn; lia].
      + destruct (pull k s') as [[f r]|e] eqn:E; cbn in H; [|discriminate].
        inversion H; subst. destruct (IH _ _ _ E) as [E1 E2].
        split; [cbn; now rewrite E1 | cbn; lia].
      + discriminate.
  Qed.

  (* the count is min(2, number of documents) when the first two load *)
  Theorem pull_count s first rest :
    pull 2 s = Ok (first, rest) -> List.length first = Nat.min 2 (List.length s).
  Proof.
    intro H. destruct s as [|[g1|e1] [|[g2|e2] s']]; cbn in H;
      try discriminate; inversion H; subst; reflexivity.
  Qed.

  (* an error among the first two documents: nothing is printed *)
  Theorem parse_early_error json ms_given simplified s e :
    pull 2 s = Err e -> parse_command json ms_given simplified s = mkR [] (Some e).
  Proof. intro H. unfold parse_command. rewrite H. reflexivity. Qed.

  (* zero documents: nothing printed, success *)
  Theorem parse_empty json ms_given simplified :
    parse_command json ms_given simplified [] = mkR [] None.
  Proof. reflexivity. Qed.

  (* exactly one document: exactly the selected renderer's output *)
  Theorem parse_one json ms_given simplified g :
    parse_command json ms_given simplified [Ok g] =
      if ms_given then match to_ms g with Ok t => mkR [t] None | Err e => mkR [] (Some e) end
      else if json then match dump_json simplified g with Ok t => mkR [t] None | Err e => mkR [] (Some e) end
      else mkR [dump_yaml simplified g] None.
  Proof.
    unfold parse_command, output_format; cbn.
    destruct ms_given; [reflexivity|]. destruct json; reflexivity.
  Qed.

  (* several documents and a non-YAML output: an error, nothing printed *)
  Theorem parse_many_not_yaml json ms_given simplified s first rest :
    pull 2 s = Ok (first, rest) -> List.length first = 2 -> (json = true \/ ms_given = true) ->
    parse_command json ms_given simplified s = mkR [] (Some RuntimeErr).
  Proof.
    intros H L Hf. unfold parse_command. rewrite H.
    destruct first as [|g1 [|g2 [|g3 f]]]; cbn in L; try discriminate.
    unfold output_format. destruct Hf as [-> | ->]; [reflexivity|].
    destruct json; reflexivity.
  Qed.

  (* several documents, YAML: every document of the stream in order, each exactly once, up to the
     first one that fails to load; success iff none fails *)
  Fixpoint good_prefix (s : stream) : list G * option err :=
    match s with
    | [] => ([], None)
    | Err e :: _ => ([], Some e)
    | Ok g :: rest => let r := good_prefix rest in (g :: fst r, snd r)
    end.
  Lemma dump_rest_good simplified rest :
    dump_rest simplified rest =
      mkR (map (dump_doc_multi simplified) (fst (good_prefix rest))) (snd (good_prefix rest)).
  Proof.
    induction rest as [|[g|e] rest IH]; cbn; [reflexivity | | reflexivity].
    cbn in IH. rewrite IH. reflexivity.
  Qed.

  Theorem parse_many_yaml simplified s first rest :
    pull 2 s = Ok (first, rest) -> List.length first = 2 ->
    parse_command false false simplified s =
      mkR (map (dump_doc_multi simplified) (fst (good_prefix s))) (snd (good_prefix s)).
  Proof.
    intros H L. unfold parse_command. rewrite H.
    destruct first as [|g1 [|g2 [|g3 f]]]; cbn in L; try discriminate.
    destruct (pull_chain _ _ _ _ H) as [E _]. subst s.
    cbn. rewrite (dump_rest_good simplified rest). reflexivity.
  Qed.
End Cli.

Print Assumptions pull_chain.
Print Assumptions pull_count.
Print Assumptions parse_early_error.
Print Assumptions parse_empty.
Print Assumptions parse_one.
Print Assumptions parse_many_not_yaml.
Print Assumptions parse_many_yaml.
