(* C20 — a cost model: for each public operation, the number of loop iterations the
   Python code performs, as a function of the model's own data (counts of demes, epochs,
   ancestors, migrations, pulses, and the number of migration intervals the model of
   migration_matrices computes).  The check ties it to the implementation by measuring the
   executed lines of each operation and requiring  lines <= K_op * (steps_op + 1)  on every
   family and size; Proofs/StepsProofs.v proves each steps_op polynomial in the size of the
   graph.  (asdict_simplified is not here: its search is exponential, Model/Cost.v.) *)
From Coq Require Import Bool List String Arith.
From Demes Require Import Base.Num Base.Py Model.MDM Model.MigMat.
Import ListNotations.
Local Open Scope list_scope.

Section Steps.
  Context {N : NumOps}.

  Definition sum_by {A} (f : A -> nat) (l : list A) : nat := fold_right (fun x acc => f x + acc) 0 l.

  Definition nD (g : graph) : nat := List.length (g_demes g).
  Definition nE (g : graph) : nat := sum_by (fun d => List.length (d_epochs d)) (g_demes g).
  Definition nA (g : graph) : nat := sum_by (fun d => List.length (d_anc d)) (g_demes g).
  Definition nM (g : graph) : nat := List.length (g_migs g).
  Definition nP (g : graph) : nat := List.length (g_pulses g).
  Definition nS (g : graph) : nat := sum_by (fun p => List.length (p_srcs p)) (g_pulses g).
  (* number of migration intervals, as the model of migration_matrices computes them *)
  Definition nT (g : graph) : nat := List.length (mm_end_times (g_migs g)).

  Definition gsize (g : graph) : nat := nD g + nE g + nA g + nM g + nP g + nS g.

  (* Graph.in_generations: one pass over demes, their epochs, migrations, pulses *)
  Definition steps_in_generations (g : graph) : nat := nD g + nE g + nM g + nP g.
  (* Graph.asdict: one pass over everything *)
  Definition steps_asdict (g : graph) : nat := gsize g.
  (* Graph.discrete_demographic_events: demes and their ancestors *)
  Definition steps_events (g : graph) : nat := nD g + nA g.
  (* Graph.migration_matrices: T zero matrices of D rows, then every migration sweeps the intervals *)
  Definition steps_migmat (g : graph) : nat := nT g * (nD g + nM g) + nM g.
  (* Graph.fromdict of a document that resolves to g: demes/epochs/ancestors once; every new
     asymmetric migration is compared with all earlier ones; the rate check builds the matrices and
     sums every row of every matrix; every new pulse is compared with the earlier ones.
     A call of a builtin on a whole row or list (sum(row), [0] * n, sorted) counts as one step, as
     it does in the executed-line counts the check measures; its own work is linear (n log n for
     sorting) in a length that gsize bounds, so the degree in primitive operations is one higher. *)
  Definition steps_fromdict (g : graph) : nat :=
    nD g + nE g + nA g + nM g * nM g + steps_migmat g + nT g * nD g + nP g * nP g + nS g.
  (* demes.to_ms: size events per epoch, split/join events per ancestor and pulse, two events per migration *)
  Definition steps_to_ms (g : graph) : nat := nD g + nE g + nA g + 2 * nM g + nP g.
End Steps.
