(* The file-handle discipline of demes/load_dump.py: _open_file_polymorph
   (lines 17-32) and the generator load_all (lines 234-257), as a state machine
   over a table of handles.  A body is an arbitrary computation that may fail. *)
From Coq Require Import Bool List Arith Lia.
From Demes Require Import Base.Num Base.Py.
Import ListNotations.

Inductive target :=
| TPath (openable : bool)      (* a str / Path: open() succeeds or raises OSError *)
| TStream (h : nat).           (* a stream supplied by the caller *)

(* handle table: handles the library opened (with their closed flag) and the
   caller's streams the library closed (should stay empty) *)
Record ftab := mkF { f_next : nat; f_owned : list (nat * bool); f_caller_closed : list nat }.

Definition ftab0 : ftab := mkF 1000 [] [].

Definition open_owned (t : ftab) : nat * ftab :=
  (f_next t, mkF (S (f_next t)) ((f_next t, false) :: f_owned t) (f_caller_closed t)).

Definition close_owned (h : nat) (t : ftab) : ftab :=
  mkF (f_next t) (map (fun p => if Nat.eqb (fst p) h then (h, true) else p) (f_owned t))
      (f_caller_closed t).

(* with _open_file_polymorph(target) as f: body(f)  —  try: yield f  finally: if f is not polymorph: f.close() *)
Definition with_open {A} (tg : target) (body : nat -> res A) (t : ftab) : res A * ftab :=
  match tg with
  | TPath false => (Err OtherErr, t)                        (* open() raised: nothing to close *)
  | TPath true => let '(h, t1) := open_owned t in (body h, close_owned h t1)
  | TStream h => (body h, t)                                (* f is polymorph: never closed *)
  end.

Definition all_closed (t : ftab) : Prop := forall h b, In (h, b) (f_owned t) -> b = true.

(* ---- load_all: a generator ---- *)
Inductive gstate {D : Type} :=
| GCreated (tg : target) (docs : list (res D))      (* not started: nothing opened yet *)
| GSuspended (owned : option nat) (rest : list (res D))
| GDone.
Arguments gstate D : clear implicits.

Inductive gop := GNext | GClose.
Inductive gout {D : Type} := Yield (d : D) | Stop | Raise (e : err).
Arguments gout D : clear implicits.

Definition finish_handle (o : option nat) (t : ftab) : ftab :=
  match o with Some h => close_owned h t | None => t end.

(* run the body until the next yield *)
Definition advance {D} (o : option nat) (docs : list (res D)) (t : ftab) : gstate D * gout D * ftab :=
  match docs with
  | [] => (GDone, Stop, finish_handle o t)
  | Err e :: _ => (GDone, Raise e, finish_handle o t)
  | Ok d :: rest => (GSuspended o rest, Yield d, t)
  end.

Definition gstep {D} (s : gstate D) (op : gop) (t : ftab) : gstate D * gout D * ftab :=
  match s, op with
  | GCreated tg docs, GNext =>
      match tg with
      | TPath false => (GDone, Raise OtherErr, t)
      | TPath true => let '(h, t1) := open_owned t in advance (Some h) docs t1
      | TStream _ => advance None docs t
      end
  | GCreated _ _, GClose => (GDone, Stop, t)
  | GSuspended o rest, GNext => advance o rest t
  | GSuspended o _, GClose => (GDone, Stop, finish_handle o t)   (* GeneratorExit runs the finally *)
  | GDone, _ => (GDone, Stop, t)
  end.

Fixpoint grun {D} (s : gstate D) (ops : list gop) (t : ftab) : gstate D * ftab :=
  match ops with
  | [] => (s, t)
  | op :: ops' => let '(s', _, t') := gstep s op t in grun s' ops' t'
  end.

(* ------------------------------ theorems ------------------------------ *)
Lemma close_owned_in h t x b :
  In (x, b) (f_owned (close_owned h t)) ->
  (x = h /\ b = true) \/ (x <> h /\ In (x, b) (f_owned t)).
Proof.
  unfold close_owned; cbn. intro Hin. apply in_map_iff in Hin.
  destruct Hin as ((h', b') & E & Hin). cbn in E.
  destruct (Nat.eqb h' h) eqn:Q.
  - inversion E; subst. left; split; reflexivity.
  - inversion E; subst. apply Nat.eqb_neq in Q. right; split; assumption.
Qed.

Lemma close_owned_closed h t : all_closed t -> all_closed (close_owned h t).
Proof.
  intros H x b Hin. apply close_owned_in in Hin.
  destruct Hin as [[_ E]|[_ Hin]]; [exact E | eapply H; exact Hin].
Qed.

Lemma close_after_open t : all_closed t -> all_closed (close_owned (fst (open_owned t)) (snd (open_owned t))).
Proof.
  intros H x b Hin. apply close_owned_in in Hin.
  destruct Hin as [[_ E]|[Hne Hin]]; [exact E|].
  cbn in Hin, Hne. destruct Hin as [E|Hin].
  - inversion E; subst. exfalso; apply Hne; reflexivity.
  - eapply H; exact Hin.
Qed.

(* whatever the body does (returns or raises), every handle the library opened is closed
   again, and no caller stream is closed *)
Theorem with_open_closes {A} tg (body : nat -> res A) t :
  all_closed t ->
  all_closed (snd (with_open tg body t)) /\
  f_caller_closed (snd (with_open tg body t)) = f_caller_closed t.
Proof.
  intro H. destruct tg as [[|]|h]; cbn [with_open open_owned snd]; split; auto.
  apply (close_after_open t H).
Qed.

(* nested use: dump/load call exactly one with-block per call; load_all keeps it across yields *)
Definition held_inv (o : option nat) (t : ftab) : Prop :=
  match o with
  | Some h => forall x b, In (x, b) (f_owned t) -> x <> h -> b = true
  | None => all_closed t
  end.

Definition gen_inv {D} (s : gstate D) (t : ftab) : Prop :=
  f_caller_closed t = [] /\
  match s with
  | GSuspended (Some h) _ => forall x b, In (x, b) (f_owned t) -> x <> h -> b = true
  | _ => all_closed t
  end.

Lemma gen_inv_suspended {D} o (rest : list (res D)) t :
  gen_inv (GSuspended o rest) t <-> f_caller_closed t = [] /\ held_inv o t.
Proof. unfold gen_inv, held_inv. destruct o; tauto. Qed.

Lemma finish_caller o t : f_caller_closed (finish_handle o t) = f_caller_closed t.
Proof. destruct o; reflexivity. Qed.

Lemma finish_inv o t :
  (match o with Some h => forall x b, In (x, b) (f_owned t) -> x <> h -> b = true | None => all_closed t end) ->
  all_closed (finish_handle o t).
Proof.
  destruct o as [h|]; cbn [finish_handle]; auto. intros H x b Hin.
  apply close_owned_in in Hin.
  destruct Hin as [[_ E]|[Hne Hin]]; [exact E | eapply H; eassumption].
Qed.

Lemma advance_inv {D} o (docs : list (res D)) t :
  f_caller_closed t = [] ->
  (match o with Some h => forall x b, In (x, b) (f_owned t) -> x <> h -> b = true | None => all_closed t end) ->
  let '(s', _, t') := advance o docs t in gen_inv s' t'.
Proof.
  intros Hc H. destruct docs as [|[d|e] rest]; cbn [advance].
  - split; [rewrite finish_caller; exact Hc | now apply finish_inv].
  - apply gen_inv_suspended. split; [exact Hc | exact H].
  - split; [rewrite finish_caller; exact Hc | now apply finish_inv].
Qed.

Lemma gstep_inv {D} (s : gstate D) op t :
  gen_inv s t -> let '(s', _, t') := gstep s op t in gen_inv s' t'.
Proof.
  intros I. destruct s as [tg docs|o rest|]; destruct op; cbn [gstep].
  - destruct I as [Hc H]. destruct tg as [[|]|h].
    + unfold open_owned.
      apply (advance_inv (Some (f_next t)) docs); cbn; auto.
      intros x b [E|Hin] Hne; [inversion E; congruence | eapply H; eauto].
    + split; auto.
    + apply advance_inv; auto.
  - destruct I as [Hc H]. split; auto.
  - destruct (proj1 (gen_inv_suspended _ _ _) I) as [Hc H]. apply advance_inv; auto.
  - destruct (proj1 (gen_inv_suspended _ _ _) I) as [Hc H].
    split; [rewrite finish_caller; exact Hc | apply finish_inv; exact H].
  - exact I.
  - exact I.
Qed.

Lemma advance_not_created {D} o (docs : list (res D)) t s' o' t' tg' d' :
  advance o docs t = (s', o', t') -> s' <> GCreated tg' d'.
Proof.
  destruct docs as [|[d|e] r]; cbn [advance]; intro E; inversion E; subst; discriminate.
Qed.

Lemma gstep_not_created {D} (s : gstate D) op t s' o' t' tg' d' :
  gstep s op t = (s', o', t') -> s' <> GCreated tg' d'.
Proof.
  destruct s as [tg docs|o rest|]; destruct op; cbn [gstep]; intro E.
  - destruct tg as [[|]|h].
    + unfold open_owned in E. eapply advance_not_created; exact E.
    + inversion E; subst; discriminate.
    + eapply advance_not_created; exact E.
  - inversion E; subst; discriminate.
  - eapply advance_not_created; exact E.
  - inversion E; subst; discriminate.
  - inversion E; subst; discriminate.
  - inversion E; subst; discriminate.
Qed.

(* for every sequence of next() / close() calls: the library never closes a caller stream;
   once the generator is exhausted, failed or closed every handle it opened is closed; a
   generator that was never started has opened nothing *)
Theorem load_all_handles {D} (tg : target) (docs : list (res D)) (ops : list gop) :
  let '(s, t) := grun (GCreated tg docs) ops ftab0 in
  f_caller_closed t = [] /\
  (s = GDone -> all_closed t) /\
  (forall tg' d', s = GCreated tg' d' -> f_owned t = []).
Proof.
  assert (forall (s : gstate D) t, gen_inv s t ->
            (forall tg' d', s = GCreated tg' d' -> f_owned t = []) ->
            let '(s', t') := grun s ops t in
            gen_inv s' t' /\ (forall tg' d', s' = GCreated tg' d' -> f_owned t' = [])) as G.
  { induction ops as [|op ops IH]; intros s t I Hc; cbn [grun]; [auto|].
    pose proof (gstep_inv s op t I) as I'.
    destruct (gstep s op t) as [[s' o'] t'] eqn:E.
    apply IH; auto.
    intros tg' d' Hs. exfalso. eapply gstep_not_created; eassumption. }
  specialize (G (GCreated tg docs) ftab0).
  destruct (grun (GCreated tg docs) ops ftab0) as [s t].
  destruct G as [[Hc I] Hn].
  - split; [reflexivity | intros x b []].
  - reflexivity.
  - split; [exact Hc|]. split; [|exact Hn]. intros ->. exact I.
Qed.

Print Assumptions with_open_closes.
Print Assumptions load_all_handles.
