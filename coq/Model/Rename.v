(* Graph.rename_demes (demes/demes.py:2007-2037) *)
From Coq Require Import Bool List String.
From Demes Require Import Base.Num Base.Py Model.MDM Spec.Valid.
Import ListNotations.
Local Open Scope string_scope.
Local Open Scope list_scope.

Section Rename.
  Context {N : NumOps}.

  Definition namemap := list (string * string).

  (* names[a] if a in names else a *)
  Definition rn (names : namemap) (a : string) : string :=
    match assoc a names with Some b => b | None => a end.

  Definition deme_rename (names : namemap) (d : deme) : deme :=
    mkDeme (rn names (d_name d)) (d_desc d) (d_start d) (map (rn names) (d_anc d))
           (d_props d) (d_epochs d).
  Definition mig_rename (names : namemap) (m : mig) : mig :=
    mkMig (rn names (m_src m)) (rn names (m_dst m)) (m_start m) (m_end m) (m_rate m).
  Definition pulse_rename (names : namemap) (p : pulse) : pulse :=
    mkPulse (map (rn names) (p_srcs p)) (rn names (p_dst p)) (p_time p) (p_props p).

  (* Python dict operations on an insertion-ordered association list *)
  Fixpoint dict_del {A} (k : string) (d : list (string * A)) : list (string * A) :=
    match d with
    | [] => []
    | (k', v) :: d' => if String.eqb k k' then d' else (k', v) :: dict_del k d'
    end.
  Fixpoint dict_set {A} (k : string) (v : A) (d : list (string * A)) : list (string * A) :=
    match d with
    | [] => [(k, v)]
    | (k', v') :: d' => if String.eqb k k' then (k', v) :: d' else (k', v') :: dict_set k v d'
    end.

  (* graph._deme_map = {deme.name: deme for deme in graph.demes} *)
  Fixpoint build_index (i : nat) (ds : list deme) (acc : list (string * nat)) : list (string * nat) :=
    match ds with
    | [] => acc
    | d :: ds' => build_index (S i) ds' (dict_set (d_name d) i acc)
    end.

  Definition rename_core (names : namemap) (g : graph) : graph :=
    mkGraph (g_desc g) (g_units g) (g_gt g) (g_doi g) (g_meta g)
            (map (deme_rename names) (g_demes g))
            (map (mig_rename names) (g_migs g))
            (map (pulse_rename names) (g_pulses g))
            (build_index 0 (map (deme_rename names) (g_demes g)) []).

  (* the renamed graph must still be valid: new names are identifiers and unique *)
  Definition rename_demes (names : namemap) (g : graph) : res graph :=
    let h := rename_core names g in
    forM_ (fun d => raise_if (negb (is_identifier (d_name d))) ValueErr) (g_demes h) ;;;
    raise_if (negb (Nat.eqb (List.length (g_index h)) (List.length (g_demes h)))) ValueErr ;;;
    Ok h.
End Rename.
