(* Graph.fromdict and the private builders it calls (demes/demes.py:28-180,
   182-257, 372-384, 473-504, 1047-1157, 1335-1376, 1508-1760, 1837-1853,
   2040-2362).  Input: an untyped document; output: a graph or the class of the
   exception.  Only accept/reject is decisive for the correspondence; the
   exception class is modelled on a best-effort basis. *)
From Coq Require Import Bool List String.
From Demes Require Import Base.Num Base.Py Model.MDM Model.Codec Model.MigMat Spec.Valid.
Import ListNotations.
Local Open Scope string_scope.
Local Open Scope list_scope.

Section Resolve.
  Context {N : NumOps}.

  (* ---- validators (demes.py:28-80) ---- *)
  Definition int_or_float (v : jv) : res num :=
    match v with
    | JNum x => if nisnan x then Err TypeErr else Ok x
    | JBool b => Ok (jnum_of_bool b)
    | _ => Err TypeErr
    end.
  Definition positive (x : num) : res unit := raise_if (nle x n0) ValueErr.
  Definition non_negative (x : num) : res unit := raise_if (nlt x n0) ValueErr.
  Definition finite (x : num) : res unit := raise_if (nisinf x) ValueErr.
  Definition unit_interval (x : num) : res unit :=
    raise_if (negb (nle n0 x && nle x n1)) ValueErr.
  Definition unit_interval_lo (x : num) : res unit :=
    raise_if (negb (nlt n0 x && nle x n1)) ValueErr.

  Definition is_number (v : jv) : bool :=
    match v with JNum _ | JBool _ => true | _ => false end.
  Definition is_str (v : jv) : bool := match v with JStr _ => true | _ => false end.
  Definition is_list (v : jv) : bool := match v with JList _ => true | _ => false end.
  Definition is_dict (v : jv) : bool := match v with JDict _ => true | _ => false end.

  Definition str_of (v : jv) : res string :=
    match v with JStr s => Ok s | _ => Err TypeErr end.
  (* instance_of(str) then valid_deme_name *)
  Definition deme_name_of (v : jv) : res string :=
    s <- str_of v ;; raise_if (negb (is_identifier s)) ValueErr ;;; Ok s.
  Definition list_of (v : jv) : res (list jv) :=
    match v with JList l => Ok l | _ => Err TypeErr end.
  Definition names_of (v : jv) : res (list string) := l <- list_of v ;; mapM deme_name_of l.
  Definition dict_of (v : jv) : res (list (string * jv)) :=
    match v with JDict kv => Ok kv | _ => Err TypeErr end.

  Definition nums_with (chk : num -> res unit) (v : jv) : res (list num) :=
    l <- list_of v ;; mapM (fun x => n <- int_or_float x ;; chk n ;;; Ok n) l.

  Definition mem (s : string) (l : list string) : bool := existsb (String.eqb s) l.
  Fixpoint nodupb (l : list string) : bool :=
    match l with [] => true | x :: l' => negb (mem x l') && nodupb l' end.

  Definition check_allowed (kv : list (string * jv)) (allowed : list string) : res unit :=
    forM_ (fun p => raise_if (negb (mem (fst p) allowed)) KeyErr) kv.

  (* pop_object(data, name, {}) *)
  Definition pop_object (kv : list (string * jv)) (k : string) : res (list (string * jv)) :=
    match assoc k kv with None => Ok [] | Some v => dict_of v end.

  (* data[k] after insert_defaults(data, defaults) *)
  Definition field (kv defaults : list (string * jv)) (k : string) : option jv :=
    match assoc k kv with Some v => Some v | None => assoc k defaults end.
  (* ...where an explicit None counts as "not given" *)
  Definition field_nn (kv defaults : list (string * jv)) (k : string) : option jv :=
    match field kv defaults k with Some JNull => None | o => o end.

  (* ---- check_defaults tables (demes.py:2088-2197) ---- *)
  Definition num_with (chks : list (num -> res unit)) (v : jv) : res unit :=
    raise_if (negb (is_number v)) TypeErr ;;;
    n <- int_or_float v ;; forM_ (fun c => c n) chks.

  Definition check_default_deme (p : string * jv) : res unit :=
    let '(k, v) := p in
    if String.eqb k "description" then raise_if (negb (is_str v)) TypeErr
    else if String.eqb k "start_time" then num_with [positive] v
    else if String.eqb k "ancestors" then names_of v ;;; Ok tt
    else if String.eqb k "proportions" then nums_with unit_interval_lo v ;;; Ok tt
    else Err KeyErr.

  Definition check_default_migration (p : string * jv) : res unit :=
    let '(k, v) := p in
    if String.eqb k "rate" then num_with [unit_interval] v
    else if String.eqb k "start_time" then num_with [non_negative] v
    else if String.eqb k "end_time" then num_with [non_negative; finite] v
    else if String.eqb k "source" then deme_name_of v ;;; Ok tt
    else if String.eqb k "dest" then deme_name_of v ;;; Ok tt
    else if String.eqb k "demes" then names_of v ;;; Ok tt
    else Err KeyErr.

  Definition check_default_pulse (p : string * jv) : res unit :=
    let '(k, v) := p in
    if String.eqb k "sources" then
      l <- names_of v ;; raise_if (Nat.eqb (List.length l) 0) ValueErr
    else if String.eqb k "dest" then deme_name_of v ;;; Ok tt
    else if String.eqb k "time" then num_with [positive; finite] v
    else if String.eqb k "proportions" then
      l <- nums_with unit_interval_lo v ;;
      raise_if (Nat.eqb (List.length l) 0) ValueErr ;;;
      raise_if (ngt (pysum l) n1) ValueErr
    else Err KeyErr.

  Definition check_default_epoch (p : string * jv) : res unit :=
    let '(k, v) := p in
    if String.eqb k "end_time" then num_with [non_negative; finite] v
    else if String.eqb k "start_size" then num_with [positive; finite] v
    else if String.eqb k "end_size" then num_with [positive; finite] v
    else if String.eqb k "selfing_rate" then num_with [unit_interval] v
    else if String.eqb k "cloning_rate" then num_with [unit_interval] v
    else if String.eqb k "size_function" then raise_if (negb (is_str v)) TypeErr
    else Err KeyErr.

  (* ---- Epoch(...) and Deme._add_epoch (demes.py:237-257, 1107-1157) ---- *)
  Definition size_functions := ["constant"; "exponential"; "linear"].

  Definition make_epoch (start : num) (en ss es : jv) (sf : option jv) (sr cr : jv) : res epoch :=
    non_negative start ;;;
    en <- int_or_float en ;; non_negative en ;;; finite en ;;;
    ss <- int_or_float ss ;; positive ss ;;; finite ss ;;;
    es <- int_or_float es ;; positive es ;;; finite es ;;;
    sf <- (match sf with
           | None => Ok (if neqb ss es then "constant" else "exponential")
           | Some (JStr s) => raise_if (negb (mem s size_functions)) ValueErr ;;; Ok s
           | Some _ => Err ValueErr
           end) ;;
    sr <- int_or_float sr ;; unit_interval sr ;;;
    cr <- int_or_float cr ;; unit_interval cr ;;;
    raise_if (nle start en) ValueErr ;;;
    raise_if (nisinf start && nneq ss es) ValueErr ;;;
    raise_if (String.eqb sf "constant" && nneq ss es) ValueErr ;;;
    Ok (mkEpoch start en ss es sf sr cr).

  Definition add_epoch (d : deme) (en : jv) (ss es sf : option jv) (sr cr : jv) : res deme :=
    r <- (match rev (d_epochs d) with
          | [] =>
              match ss, es with
              | None, None => Err KeyErr
              | Some a, None => Ok (d_start d, a, a)
              | None, Some b => Ok (d_start d, b, b)
              | Some a, Some b => Ok (d_start d, a, b)
              end
          | prev :: _ =>
              let a := match ss with Some a => a | None => JNum (e_esize prev) end in
              let b := match es with Some b => b | None => a end in
              Ok (e_end prev, a, b)
          end) ;;
    let '(start, a, b) := r in
    e <- make_epoch start en a b sf sr cr ;;
    Ok (mkDeme (d_name d) (d_desc d) (d_start d) (d_anc d) (d_props d) (d_epochs d ++ [e])).

  (* ---- Graph._add_deme and Deme(...) (demes.py:1047-1105, 1508-1605) ---- *)
  Definition add_deme (g : graph) (name : jv) (desc : jv) (start anc props : option jv) : res graph :=
    (* name in self *)
    nm_key <- (match name with
               | JStr s => Ok (Some s)
               | JList _ | JDict _ => Err TypeErr        (* unhashable *)
               | _ => Ok None
               end) ;;
    raise_if (match nm_key with Some s => contains g s | None => false end) ValueErr ;;;
    ancl <- (match anc with None => Ok [] | Some v => list_of v end) ;;
    forM_ (fun a => match a with
                    | JStr s => raise_if (negb (contains g s)) ValueErr
                    | JList _ | JDict _ => Err TypeErr
                    | _ => Err ValueErr
                    end) ancl ;;;
    let anc_names := map (fun a => match a with JStr s => s | _ => "" end) ancl in
    let propsv := match props with
                  | Some v => v
                  | None => if Nat.eqb (List.length ancl) 1 then JList [JNum nf1] else JList []
                  end in
    start <- (match start with
              | Some v => Ok v
              | None =>
                  match anc_names with
                  | [] => Ok (JNum ninf)
                  | [a] => ad <- lookup g a ;; e <- d_end ad ;; Ok (JNum e)
                  | _ => Err ValueErr
                  end
              end) ;;
    raise_if (negb (is_number start)) TypeErr ;;;
    let st := match start with JNum x => x | JBool b => jnum_of_bool b | _ => n0 end in
    raise_if (Nat.eqb (List.length ancl) 0 && negb (nisinf st)) ValueErr ;;;
    forM_ (fun a => ad <- lookup g a ;; e <- d_end ad ;;
                    raise_if (negb (ngt (d_start ad) st && nge st e)) ValueErr) anc_names ;;;
    (* Deme(...) field validators, then post-init *)
    nm <- deme_name_of name ;;
    ds <- str_of desc ;;
    st <- int_or_float start ;; positive st ;;;
    an <- mapM deme_name_of ancl ;;
    raise_if (negb (nodupb an)) ValueErr ;;;
    raise_if (mem nm an) ValueErr ;;;
    pr <- (l <- list_of propsv ;; mapM int_or_float l) ;;
    raise_if (negb (Nat.eqb (List.length pr) 0) && negb (isclose0 (pysum pr) nf1)) ValueErr ;;;
    forM_ (fun p => unit_interval p ;;; positive p) pr ;;;
    raise_if (negb (Nat.eqb (List.length an) (List.length pr))) ValueErr ;;;
    let d := mkDeme nm ds st an pr [] in
    Ok (mkGraph (g_desc g) (g_units g) (g_gt g) (g_doi g) (g_meta g)
                (g_demes g ++ [d]) (g_migs g) (g_pulses g)
                (g_index g ++ [(nm, List.length (g_demes g))])).

  (* replace the last deme (the one being built) *)
  Definition set_last_deme (g : graph) (d : deme) : graph :=
    mkGraph (g_desc g) (g_units g) (g_gt g) (g_doi g) (g_meta g)
            (removelast (g_demes g) ++ [d]) (g_migs g) (g_pulses g) (g_index g).

  (* ---- migrations (demes.py:372-384, 1607-1693) ---- *)
  (* pymax / pymin (builtin max / min on two numbers) are defined in Base/Py.v *)

  (* _check_time_intersection *)
  Definition time_intersection (g : graph) (n1' n2' : string) (time : option jv) : res (num * num) :=
    d1 <- lookup g n1' ;; d2 <- lookup g n2' ;;
    e1 <- d_end d1 ;; e2 <- d_end d2 ;;
    let lo := pymax e1 e2 in
    let hi := pymin (d_start d1) (d_start d2) in
    (match time with
     | None => Ok tt
     | Some v =>
         raise_if (negb (is_number v)) TypeErr ;;;
         let t := match v with JNum x => x | JBool b => jnum_of_bool b | _ => n0 end in
         raise_if (negb (nle lo t && nle t hi)) ValueErr
     end) ;;;
    Ok (lo, hi).

  Definition add_asym (g : graph) (src dst : jv) (rate : jv) (start en : option jv) : res graph :=
    forM_ (fun v => match v with
                    | JStr s => raise_if (negb (contains g s)) ValueErr
                    | JList _ | JDict _ => Err TypeErr
                    | _ => Err ValueErr
                    end) [src; dst] ;;;
    s <- str_of src ;; d <- str_of dst ;;
    lh <- time_intersection g s d start ;;
    let '(lo, hi) := lh in
    st <- (match start with None => Ok (JNum hi) | Some v => Ok v end) ;;
    en <- (match en with
           | None => Ok (JNum lo)
           | Some v => time_intersection g s d (Some v) ;;; Ok v
           end) ;;
    s <- deme_name_of src ;; d <- deme_name_of dst ;;
    st <- int_or_float st ;; non_negative st ;;;
    en <- int_or_float en ;; non_negative en ;;; finite en ;;;
    r <- int_or_float rate ;; unit_interval r ;;;
    raise_if (String.eqb s d) ValueErr ;;;
    raise_if (negb (ngt st en)) ValueErr ;;;
    (* at most one migration per (source, dest) at any time *)
    raise_if (existsb (fun o => String.eqb (m_src o) s && String.eqb (m_dst o) d
                                && nlt (m_end o) st && nlt en (m_start o)) (g_migs g)) ValueErr ;;;
    Ok (mkGraph (g_desc g) (g_units g) (g_gt g) (g_doi g) (g_meta g) (g_demes g)
                (g_migs g ++ [mkMig s d st en r]) (g_pulses g) (g_index g)).

  (* itertools.permutations(l, 2) *)
  Fixpoint remove_nth {A} (i : nat) (l : list A) : list A :=
    match l, i with
    | [], _ => []
    | _ :: l', O => l'
    | x :: l', S i' => x :: remove_nth i' l'
    end.
  Definition perms2 {A} (l : list A) : list (A * A) :=
    flat_map (fun i => match nth_error l i with
                       | Some x => map (fun y => (x, y)) (remove_nth i l)
                       | None => []
                       end) (seq 0 (List.length l)).

  Definition add_sym (g : graph) (demes : jv) (rate : jv) (start en : option jv) : res graph :=
    match demes with
    | JList l =>
        raise_if (Nat.ltb (List.length l) 2) ValueErr ;;;
        foldM (fun g p => add_asym g (fst p) (snd p) rate start en) (perms2 l) g
    | _ => Err ValueErr
    end.

  (* ---- pulses (demes.py:473-504, 1695-1760) ---- *)
  Definition add_pulse (g : graph) (sources dest time props : jv) : res graph :=
    srcl <- list_of sources ;;
    forM_ (fun v => match v with
                    | JStr s => raise_if (negb (contains g s)) ValueErr
                    | JList _ | JDict _ => Err TypeErr
                    | _ => Err ValueErr
                    end) (srcl ++ [dest]) ;;;
    d <- str_of dest ;;
    srcs <- mapM str_of srcl ;;
    forM_ (fun s => time_intersection g s d (Some time) ;;; Ok tt) srcs ;;;
    raise_if (negb (is_number time) && negb (Nat.eqb (List.length srcs) 0)) TypeErr ;;;
    dd <- lookup g d ;; de <- d_end dd ;;
    t0 <- (match time with
           | JNum x => Ok (Some x) | JBool b => Ok (Some (jnum_of_bool b))
           | _ => Ok None end) ;;
    raise_if (match t0 with Some t => neqb t de | None => false end) ValueErr ;;;
    forM_ (fun s => sd <- lookup g s ;;
                    raise_if (match t0 with Some t => neqb t (d_start sd) | None => false end) ValueErr)
          srcs ;;;
    (* Pulse(...) *)
    sn <- mapM deme_name_of srcl ;;
    raise_if (Nat.eqb (List.length sn) 0) ValueErr ;;;
    dn <- deme_name_of dest ;;
    t <- int_or_float time ;; positive t ;;; finite t ;;;
    pr <- nums_with unit_interval_lo props ;;
    raise_if (mem dn sn) ValueErr ;;;
    raise_if (negb (nodupb sn)) ValueErr ;;;
    raise_if (negb (Nat.eqb (List.length sn) (List.length pr))) ValueErr ;;;
    raise_if (ngt (pysum pr) n1) ValueErr ;;;
    Ok (mkGraph (g_desc g) (g_units g) (g_gt g) (g_doi g) (g_meta g) (g_demes g)
                (g_migs g) (g_pulses g ++ [mkPulse sn dn t pr]) (g_index g)).

  (* pulses.sort(key=time, reverse=True): stable, descending *)
  Fixpoint insert_pulse (p : pulse) (l : list pulse) : list pulse :=
    match l with
    | [] => [p]
    | q :: l' => if nle (p_time q) (p_time p) then p :: l else q :: insert_pulse p l'
    end.
  Definition sort_pulses (l : list pulse) : list pulse := fold_right insert_pulse [] l.

  (* ---- Graph(...) (demes.py:1335-1376) ---- *)
  Definition make_graph (desc units doi gt meta : jv) : res graph :=
    ds <- str_of desc ;;
    un <- str_of units ;; raise_if (String.eqb un "") ValueErr ;;;
    gto <- (match gt with
            | JNull => Ok None
            | v => x <- int_or_float v ;; positive x ;;; finite x ;;; Ok (Some x)
            end) ;;
    dl <- list_of doi ;;
    dois <- mapM (fun v => s <- str_of v ;; raise_if (String.eqb s "") ValueErr ;;; Ok s) dl ;;
    raise_if (negb (is_dict meta)) TypeErr ;;;
    raise_if (negb (String.eqb un "generations") && match gto with None => true | _ => false end)
             ValueErr ;;;
    let gtv := match gto with Some x => x | None => n1 end in
    raise_if (String.eqb un "generations" && nneq gtv n1) ValueErr ;;;
    Ok (mkGraph ds un gtv dois meta [] [] [] []).

  Definition toplevel_fields :=
    ["description"; "time_units"; "generation_time"; "defaults"; "doi"; "metadata";
     "demes"; "migrations"; "pulses"].
  Definition deme_fields :=
    ["description"; "start_time"; "ancestors"; "proportions"; "name"; "defaults"; "epochs"].
  Definition epoch_fields :=
    ["end_time"; "start_size"; "end_size"; "size_function"; "cloning_rate"; "selfing_rate"].
  Definition migration_fields := ["demes"; "source"; "dest"; "start_time"; "end_time"; "rate"].
  Definition pulse_fields := ["sources"; "dest"; "time"; "proportions"].

  (* dict(global); update(local) *)
  Definition merge_defaults (glob loc : list (string * jv)) : list (string * jv) :=
    loc ++ filter (fun p => match assoc (fst p) loc with Some _ => false | None => true end) glob.

  Definition jdefault (o : option jv) (d : jv) : jv := match o with Some v => v | None => d end.

  Definition resolve_deme (deme_defaults glob_epoch : list (string * jv)) (g : graph) (dv : jv)
    : res graph :=
    kv <- dict_of dv ;;
    name <- (match assoc "name" kv with Some v => Ok v | None => Err KeyErr end) ;;
    check_allowed kv deme_fields ;;;
    g1 <- add_deme g name (jdefault (field kv deme_defaults "description") (JStr ""))
                   (field_nn kv deme_defaults "start_time")
                   (field_nn kv deme_defaults "ancestors")
                   (field_nn kv deme_defaults "proportions") ;;
    local <- pop_object kv "defaults" ;;
    check_allowed local ["epoch"] ;;;
    local_epoch <- pop_object local "epoch" ;;
    forM_ check_default_epoch local_epoch ;;;
    let edef := merge_defaults glob_epoch local_epoch in
    raise_if (Nat.eqb (List.length edef) 0 && match assoc "epochs" kv with None => true | _ => false end)
             KeyErr ;;;
    epochs <- (match assoc "epochs" kv with
               | None => Ok [JDict []]
               | Some v => l <- list_of v ;;
                           forM_ (fun e => raise_if (negb (is_dict e)) TypeErr) l ;;; Ok l
               end) ;;
    raise_if (Nat.eqb (List.length epochs) 0) ValueErr ;;;
    let nE := List.length epochs in
    d0 <- (match rev (g_demes g1) with d :: _ => Ok d | [] => Err OtherErr end) ;;
    dj <- foldM (fun (st : deme * nat) ev =>
                   let '(d, j) := st in
                   ekv <- dict_of ev ;;
                   check_allowed ekv epoch_fields ;;;
                   en <- (match field ekv edef "end_time" with
                          | Some v => Ok v
                          | None => if Nat.eqb (S j) nE then Ok (JNum n0) else Err KeyErr
                          end) ;;
                   d' <- add_epoch d en (field_nn ekv edef "start_size") (field_nn ekv edef "end_size")
                                   (field_nn ekv edef "size_function")
                                   (jdefault (field ekv edef "selfing_rate") (JNum n0))
                                   (jdefault (field ekv edef "cloning_rate") (JNum n0)) ;;
                   Ok (d', S j))
                epochs (d0, 0) ;;
    Ok (set_last_deme g1 (fst dj)).

  Definition resolve_migration (mdef : list (string * jv)) (g : graph) (mv : jv) : res graph :=
    kv <- dict_of mv ;;
    check_allowed kv migration_fields ;;;
    rate <- (match field kv mdef "rate" with Some v => Ok v | None => Err KeyErr end) ;;
    let demes := field_nn kv mdef "demes" in
    let source := field_nn kv mdef "source" in
    let dest := field_nn kv mdef "dest" in
    match demes, source, dest with
    | Some dl, None, None =>
        add_sym g dl rate (field_nn kv mdef "start_time") (field_nn kv mdef "end_time")
    | None, Some s, Some d =>
        add_asym g s d rate (field_nn kv mdef "start_time") (field_nn kv mdef "end_time")
    | _, _, _ => Err KeyErr
    end.

  Definition resolve_pulse (pdef : list (string * jv)) (g : graph) (pv : jv) : res graph :=
    kv <- dict_of pv ;;
    check_allowed kv pulse_fields ;;;
    so <- (match field kv pdef "sources" with Some v => Ok v | None => Err KeyErr end) ;;
    de <- (match field kv pdef "dest" with Some v => Ok v | None => Err KeyErr end) ;;
    ti <- (match field kv pdef "time" with Some v => Ok v | None => Err KeyErr end) ;;
    pr <- (match field kv pdef "proportions" with Some v => Ok v | None => Err KeyErr end) ;;
    add_pulse g so de ti pr.

  Definition dict_list (kv : list (string * jv)) (k : string) (required : bool) : res (list jv) :=
    match assoc k kv with
    | None => if required then Err KeyErr else Ok []
    | Some v => l <- list_of v ;;
                forM_ (fun e => raise_if (negb (is_dict e)) TypeErr) l ;;; Ok l
    end.

  (* Graph.fromdict *)
  Definition fromdict (data : jv) : res graph :=
    kv <- dict_of data ;;
    check_allowed kv toplevel_fields ;;;
    defaults <- pop_object kv "defaults" ;;
    check_allowed defaults ["deme"; "migration"; "pulse"; "epoch"] ;;;
    ddef <- pop_object defaults "deme" ;; forM_ check_default_deme ddef ;;;
    mdef <- pop_object defaults "migration" ;; forM_ check_default_migration mdef ;;;
    pdef <- pop_object defaults "pulse" ;; forM_ check_default_pulse pdef ;;;
    edef <- pop_object defaults "epoch" ;; forM_ check_default_epoch edef ;;;
    units <- (match assoc "time_units" kv with Some v => Ok v | None => Err KeyErr end) ;;
    g0 <- make_graph (jdefault (assoc "description" kv) (JStr "")) units
                     (jdefault (assoc "doi" kv) (JList []))
                     (jdefault (assoc "generation_time" kv) JNull)
                     (jdefault (assoc "metadata" kv) (JDict [])) ;;
    dl <- dict_list kv "demes" true ;;
    raise_if (Nat.eqb (List.length dl) 0) ValueErr ;;;
    g1 <- foldM (resolve_deme ddef edef) dl g0 ;;
    ml <- dict_list kv "migrations" false ;;
    g2 <- foldM (resolve_migration mdef) ml g1 ;;
    check_migration_rates g2 ;;;
    pl <- dict_list kv "pulses" false ;;
    g3 <- foldM (resolve_pulse pdef) pl g2 ;;
    Ok (mkGraph (g_desc g3) (g_units g3) (g_gt g3) (g_doi g3) (g_meta g3) (g_demes g3)
                (g_migs g3) (sort_pulses (g_pulses g3)) (g_index g3)).
End Resolve.
