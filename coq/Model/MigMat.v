(* Graph.migration_matrices and Graph._check_migration_rates
   (demes/demes.py:1762-1853) *)
From Coq Require Import Bool List String.
From Demes Require Import Base.Num Base.Py Model.MDM.
Import ListNotations.
Local Open Scope string_scope.
Local Open Scope list_scope.

Section MigMat.
  Context {N : NumOps}.

  Definition matrix := list (list num).

  (* a Python set of numbers, kept as a descending list without duplicates:
     inserting a value equal (==) to a member leaves the set unchanged *)
  Fixpoint insert_desc (x : num) (l : list num) : list num :=
    match l with
    | [] => [x]
    | y :: l' => if neqb x y then l
                 else if nlt y x then x :: l
                 else y :: insert_desc x l'
    end.

  Definition uniq_desc (xs : list num) : list num :=
    fold_left (fun acc x => insert_desc x acc) xs [].

  Fixpoint last_opt {A} (l : list A) : option A :=
    match l with [] => None | [x] => Some x | _ :: l' => last_opt l' end.

  Definition mm_end_times (ms : list mig) : list num :=
    let all := map m_start ms ++ map m_end ms in
    let fin := filter (fun x => negb (neqb x ninf)) all in
    let ets := uniq_desc fin in
    match last_opt ets with
    | None => [n0]
    | Some z => if negb (neqb z n0) then ets ++ [n0] else ets
    end.

  Definition zero_matrix (n : nat) : matrix := repeat (repeat nf0 n) n.

  Fixpoint set_nth {A} (i : nat) (x : A) (l : list A) : list A :=
    match l, i with
    | [], _ => []
    | _ :: l', O => x :: l'
    | y :: l', S i' => y :: set_nth i' x l'
    end.

  Definition mget (m : matrix) (r c : nat) : num := nth c (nth r m []) nf0.
  Definition mset (m : matrix) (r c : nat) (x : num) : matrix :=
    set_nth r (set_nth c x (nth r m [])) m.

  (* the inner loop over intervals for one migration; [start] is the start of
     the current interval (the previous end time, inf for the first) *)
  Fixpoint sweep (m : mig) (src dst : nat) (start : num) (ets : list num)
           (mms : list matrix) : res (list matrix) :=
    match ets, mms with
    | et :: ets', mm :: mms' =>
        if nle start (m_end m) then Ok mms
        else
          mm' <- (if nlt et (m_start m) then
                    if ngt (mget mm dst src) n0 then Err ValueErr
                    else Ok (mset mm dst src (nfloat (m_rate m)))
                  else Ok mm) ;;
          rest <- sweep m src dst et ets' mms' ;;
          Ok (mm' :: rest)
    | _, _ => Ok mms
    end.

  Definition deme_names (g : graph) : list string := map d_name (g_demes g).

  (* deme_id = {deme.name: j}: a later duplicate name overrides an earlier one *)
  Definition deme_id (g : graph) (name : string) : res nat :=
    match index_of name (rev (deme_names g)) with
    | Some i => Ok (List.length (g_demes g) - 1 - i)
    | None => Err KeyErr
    end.

  Definition migration_matrices (g : graph) : res (list matrix * list num) :=
    let ets := mm_end_times (g_migs g) in
    let n := List.length (g_demes g) in
    mms <- foldM (fun mms m =>
                    s <- deme_id g (m_src m) ;;
                    d <- deme_id g (m_dst m) ;;
                    sweep m s d ninf ets mms)
                 (g_migs g) (repeat (zero_matrix n) (List.length ets)) ;;
    Ok (mms, ets).

  Definition check_migration_rates (g : graph) : res unit :=
    r <- migration_matrices g ;;
    forM_ (fun mm =>
             forM_ (fun row =>
                      let s := pysum row in
                      raise_if (ngt s n1 && negb (isclose0 s n1)) ValueErr) mm)
          (fst r).
End MigMat.
