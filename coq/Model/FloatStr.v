(* float_str (demes/ms.py:84-96): negative numbers are rendered with
   format(a, ".10f"), i.e. the exact binary value a = n/d rounded half-even to ten
   decimal places.  fixed10 n d is the integer formed by the printed digits
   (sign included): the text is  sign, digits[:-10], ".", digits[-10:]. *)
From Coq Require Import ZArith Lia.
Local Open Scope Z_scope.

Definition round_half_even (n d : Z) : Z :=
  let q := n / d in
  let r := n mod d in
  if 2 * r <? d then q
  else if d <? 2 * r then q + 1
  else if Z.even q then q else q + 1.

Definition fixed10 (n d : Z) : Z := round_half_even (n * 10 ^ 10) d.

(* the printed value differs from the exact one by at most half a unit of the tenth decimal *)
Theorem fixed10_error n d :
  0 < d -> 2 * Z.abs (fixed10 n d * d - n * 10 ^ 10) <= d.
Proof.
  intro Hd. unfold fixed10, round_half_even.
  set (m := n * 10 ^ 10).
  pose proof (Z.div_mod m d ltac:(lia)) as E.
  pose proof (Z.mod_pos_bound m d Hd) as B.
  destruct (2 * (m mod d) <? d) eqn:H1; [apply Z.ltb_lt in H1; lia|].
  apply Z.ltb_ge in H1.
  destruct (d <? 2 * (m mod d)) eqn:H2; [apply Z.ltb_lt in H2; lia|].
  apply Z.ltb_ge in H2.
  destruct (Z.even (m / d)); lia.
Qed.

(* negative numbers stay negative or become -0.0000000000: the text always starts with "-"
   followed by digits, a form argparse accepts as a negative number, never as an option *)
Theorem fixed10_nonpos n d : 0 < d -> n < 0 -> fixed10 n d <= 0.
Proof.
  intros Hd Hn. unfold fixed10, round_half_even.
  set (m := n * 10 ^ 10).
  assert (m < 0) by (unfold m; nia).
  pose proof (Z.div_mod m d ltac:(lia)) as E.
  pose proof (Z.mod_pos_bound m d Hd) as B.
  assert (m / d <= -1) by nia.
  destruct (2 * (m mod d) <? d) eqn:H1; [lia|].
  destruct (d <? 2 * (m mod d)) eqn:H2; [lia|].
  destruct (Z.even (m / d)) eqn:Ev; [lia|].
  assert (m / d <> -1 -> m / d + 1 <= 0) by lia.
  destruct (Z.eq_dec (m / d) (-1)) as [e|e]; [rewrite e; lia | lia].
Qed.
