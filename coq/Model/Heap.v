(* Heap.v -- why `data = _copy_unshared(data)` makes `fromdict` pure.

   `fromdict(data)` resolves a nested document made of dicts, lists and atoms.
   It works destructively (it pops keys, inserts defaults, ...), yet it must
     (1) never modify the caller's `data`, and
     (2) not depend on sub-objects of `data` being shared (one list object
         referenced from two places).
   It gets both by first taking

       def _copy_unshared(data):
           if isinstance(data, MutableMapping):
               return {key: _copy_unshared(value) for key, value in data.items()}
           if isinstance(data, list):
               return [_copy_unshared(value) for value in data]
           return copy.deepcopy(data)            # atoms

   and then consuming the copy only.  In a purely functional model both
   properties are vacuous, so this file models a store with addresses,
   references and in-place mutation, and proves:

     copy_fresh          the copy lives entirely in freshly allocated nodes;
     copy_value          the copy denotes the same tree as the original;
     frame               NO sequence of mutations by a consumer that starts
                         from the copy can change a node of the caller's store
                         (frame_value: the caller's value is unchanged);
     copy_unshared_tree  the copy is a tree: no fresh node is referenced twice;
     sibling_independent hence consuming one child never changes a sibling;
     Examples            a shared list: `_copy_unshared` splits it, while a
                         sharing-preserving copy (copy.deepcopy) keeps it
                         shared -- the earlier defect.

   Self-contained: Coq standard library only. *)
From Coq Require Import String.
From Coq Require Import List Arith Lia Bool Permutation.
Import ListNotations.
Local Open Scope list_scope.

(* ------------------------------------------------------------------ *)
(** * 1. Stores                                                        *)
(* ------------------------------------------------------------------ *)

(* Atoms are immutable leaves; numbers are kept abstract (an identifier). *)
Inductive atom := ANull | ABool (b : bool) | ANum (id : nat) | AStr (s : string).

(* A value held in a variable or in a container slot: an atom or a reference
   to a container. *)
Inductive hval := HAtom (a : atom) | HRef (addr : nat).

(* A container. *)
Inductive hnode :=
| HDict (kv : list (string * hval))
| HList (l : list hval).

(* The store: address = position. *)
Definition store := list hnode.
Definition lookup (st : store) (a : nat) : option hnode := nth_error st a.

(* The slots of a container, and a container with its slots replaced
   (keys are kept). *)
Definition node_vals (n : hnode) : list hval :=
  match n with HDict kv => map snd kv | HList l => l end.

Definition node_with (n : hnode) (vs : list hval) : hnode :=
  match n with
  | HDict kv => HDict (combine (map fst kv) vs)
  | HList _ => HList vs
  end.

(* The addresses mentioned by a value / by a container, with multiplicity
   and in slot order. *)
Definition val_refs (v : hval) : list nat :=
  match v with HRef a => [a] | HAtom _ => [] end.
Definition node_refs (n : hnode) : list nat := flat_map val_refs (node_vals n).

Lemma in_node_refs n b : In b (node_refs n) <-> In (HRef b) (node_vals n).
Proof.
  unfold node_refs. rewrite in_flat_map. split.
  - intros (v & Hv & Hb). destruct v; simpl in Hb; [contradiction|].
    destruct Hb as [->|[]]. exact Hv.
  - intros H. exists (HRef b). simpl. auto.
Qed.

(* ------------------------------------------------------------------ *)
(** * 2. `_copy_unshared`                                              *)
(* ------------------------------------------------------------------ *)

(* Copy the slots left to right, threading the growing store. *)
Fixpoint copy_list (cp : store -> hval -> option (store * hval))
         (st : store) (l : list hval) : option (store * list hval) :=
  match l with
  | [] => Some (st, [])
  | x :: xs =>
    match cp st x with
    | None => None
    | Some (st1, x') =>
      match copy_list cp st1 xs with
      | None => None
      | Some (st2, xs') => Some (st2, x' :: xs')
      end
    end
  end.

(* Every container met is re-created in a FRESH node appended at the end of
   the store (after its children); atoms are returned as they are.  A container
   met twice is copied twice.  [None] only when the fuel runs out (cyclic or
   too deep input) or an address is dangling. *)
Fixpoint copy_unshared (fuel : nat) (st : store) (v : hval) : option (store * hval) :=
  match v with
  | HAtom _ => Some (st, v)
  | HRef a =>
    match fuel with
    | 0 => None
    | S f =>
      match lookup st a with
      | None => None
      | Some n =>
        match copy_list (copy_unshared f) st (node_vals n) with
        | None => None
        | Some (st1, vs') => Some (st1 ++ [node_with n vs'], HRef (length st1))
        end
      end
    end
  end.

(* ------------------------------------------------------------------ *)
(** * 3. The tree a store denotes from a root                          *)
(* ------------------------------------------------------------------ *)

Inductive tree :=
| TAtom (a : atom)
| TDict (kv : list (string * tree))
| TList (l : list tree).

Fixpoint mapO {A B} (f : A -> option B) (l : list A) : option (list B) :=
  match l with
  | [] => Some []
  | x :: xs =>
    match f x with
    | None => None
    | Some y => match mapO f xs with None => None | Some ys => Some (y :: ys) end
    end
  end.

Definition node_tree (n : hnode) (ts : list tree) : tree :=
  match n with
  | HDict kv => TDict (combine (map fst kv) ts)
  | HList _ => TList ts
  end.

Fixpoint unfold (fuel : nat) (st : store) (v : hval) : option tree :=
  match v with
  | HAtom a => Some (TAtom a)
  | HRef a =>
    match fuel with
    | 0 => None
    | S f =>
      match lookup st a with
      | None => None
      | Some n => option_map (node_tree n) (mapO (unfold f st) (node_vals n))
      end
    end
  end.

(* ------------------------------------------------------------------ *)
(** * 4. Reachability                                                  *)
(* ------------------------------------------------------------------ *)

(* The root's own address, and the addresses stored in reachable nodes. *)
Inductive Reach (st : store) (v : hval) : nat -> Prop :=
| Reach_root a : v = HRef a -> Reach st v a
| Reach_step a n b :
    Reach st v a -> lookup st a = Some n -> In b (node_refs n) -> Reach st v b.

(* ------------------------------------------------------------------ *)
(** * 5. What a consumer may do                                        *)
(* ------------------------------------------------------------------ *)

(* [MSetNode a n] replaces the container at address [a]: this covers pop,
   insert, append, del, sort, update, ...  [MAlloc n] creates a container. *)
Inductive mut := MSetNode (a : nat) (n : hnode) | MAlloc (n : hnode).

Fixpoint set_nth {A} (i : nat) (x : A) (l : list A) {struct l} : list A :=
  match l, i with
  | [], _ => []
  | _ :: t, 0 => x :: t
  | h :: t, S i' => h :: set_nth i' x t
  end.

Definition exec1 (st : store) (m : mut) : store :=
  match m with
  | MSetNode a n => set_nth a n st
  | MAlloc n => st ++ [n]
  end.

Definition exec (st : store) (ms : list mut) : store := fold_left exec1 ms st.

(* A program that was handed [root] can only ever touch addresses it HOLDS:
   those it can read off the structure under [root], those it allocated, and
   those it got hold of earlier (e.g. `x = d.pop(k)` -- x is no longer under
   the root but the program keeps it).  [K] is the set of addresses known from
   earlier steps; at each step the held set is [K] plus everything reachable
   from [root] now, and it only grows.
     - [MSetNode a n] needs [a] held, and every reference written held
       (a program can only store references it holds);
     - [MAlloc n] needs every reference written held; the new address becomes
       held. *)
Fixpoint Confined_from (root : hval) (K : nat -> Prop) (st : store) (ms : list mut) : Prop :=
  match ms with
  | [] => True
  | m :: ms' =>
    let H := fun x => K x \/ Reach st root x in
    match m with
    | MSetNode a n =>
      H a /\ (forall b, In b (node_refs n) -> H b) /\
      Confined_from root H (exec1 st m) ms'
    | MAlloc n =>
      (forall b, In b (node_refs n) -> H b) /\
      Confined_from root (fun x => H x \/ x = length st) (exec1 st m) ms'
    end
  end.

Definition Confined (root : hval) (st : store) (ms : list mut) : Prop :=
  Confined_from root (fun _ => False) st ms.

(* The literal reading "reachable from root in the store at that moment, or
   allocated earlier in the sequence" is a special case (see
   [Confined_simple_Confined] below), so theorems about [Confined] cover it. *)
Fixpoint Confined_simple (root : hval) (al : list nat) (st : store) (ms : list mut) : Prop :=
  match ms with
  | [] => True
  | m :: ms' =>
    let H := fun x => Reach st root x \/ In x al in
    match m with
    | MSetNode a n =>
      H a /\ (forall b, In b (node_refs n) -> H b) /\
      Confined_simple root al (exec1 st m) ms'
    | MAlloc n =>
      (forall b, In b (node_refs n) -> H b) /\
      Confined_simple root (length st :: al) (exec1 st m) ms'
    end
  end.

Lemma Confined_simple_from root ms :
  forall al (K : nat -> Prop) st,
    (forall x, In x al -> K x) ->
    Confined_simple root al st ms -> Confined_from root K st ms.
Proof.
  induction ms as [|m ms IH]; simpl; intros al K st Hal Hc; auto.
  destruct m as [a n|n].
  - destruct Hc as (Ha & Hn & Hc). repeat split.
    + destruct Ha; auto.
    + intros b Hb. destruct (Hn b Hb); auto.
    + eapply IH; [|exact Hc]. intros x Hx. auto.
  - destruct Hc as (Hn & Hc). split.
    + intros b Hb. destruct (Hn b Hb); auto.
    + eapply IH; [|exact Hc]. intros x [<-|Hx]; auto.
Qed.

Lemma Confined_simple_Confined root st ms :
  Confined_simple root [] st ms -> Confined root st ms.
Proof. apply Confined_simple_from. intros x []. Qed.

(* ------------------------------------------------------------------ *)
(** * Generic list lemmas                                              *)
(* ------------------------------------------------------------------ *)

Lemma NoDup_app_intro {A} (l1 l2 : list A) :
  NoDup l1 -> NoDup l2 -> (forall x, In x l1 -> In x l2 -> False) ->
  NoDup (l1 ++ l2).
Proof.
  induction l1 as [|a l1 IH]; simpl; intros H1 H2 D; auto.
  inversion H1; subst. constructor.
  - rewrite in_app_iff. intros [?|?]; eauto.
  - apply IH; eauto.
Qed.

Lemma NoDup_app_disj {A} (l1 l2 : list A) x :
  NoDup (l1 ++ l2) -> In x l1 -> In x l2 -> False.
Proof.
  induction l1 as [|a l1 IH]; simpl; intros H I1 I2; [contradiction|].
  inversion H; subst. destruct I1 as [->|I1].
  - apply H2. apply in_or_app; auto.
  - eauto.
Qed.

Lemma NoDup_app_l {A} (l1 l2 : list A) : NoDup (l1 ++ l2) -> NoDup l1.
Proof.
  induction l1 as [|a l1 IH]; simpl; intros H; [constructor|].
  inversion H; subst. constructor; auto.
  intros I. apply H2. apply in_or_app; auto.
Qed.

Lemma NoDup_app_r {A} (l1 l2 : list A) : NoDup (l1 ++ l2) -> NoDup l2.
Proof.
  induction l1 as [|a l1 IH]; simpl; intros H; auto. inversion H; auto.
Qed.

(* In a duplicate-free concatenation [f x0 ++ f x1 ++ ...] an element
   determines the position of the block it occurs in. *)
Lemma NoDup_flat_map_unique {A B} (f : A -> list B) (l : list A) :
  NoDup (flat_map f l) ->
  forall i j x y b,
    nth_error l i = Some x -> nth_error l j = Some y ->
    In b (f x) -> In b (f y) -> i = j.
Proof.
  induction l as [|h t IH]; simpl; intros ND i j x y b Hi Hj Bx By.
  - destruct i; discriminate.
  - destruct i as [|i], j as [|j]; simpl in *; auto.
    + exfalso. inversion Hi; subst. eapply NoDup_app_disj; eauto.
      apply in_flat_map. exists y. split; auto. eapply nth_error_In; eauto.
    + exfalso. inversion Hj; subst. eapply NoDup_app_disj; eauto.
      apply in_flat_map. exists x. split; auto. eapply nth_error_In; eauto.
    + f_equal. eapply IH; eauto. eapply NoDup_app_r; eauto.
Qed.

Lemma NoDup_flat_map_in {A B} (f : A -> list B) (l : list A) x :
  NoDup (flat_map f l) -> In x l -> NoDup (f x).
Proof.
  induction l as [|h t IH]; simpl; intros ND I; [contradiction|].
  destruct I as [->|I].
  - eapply NoDup_app_l; eauto.
  - apply IH; auto. eapply NoDup_app_r; eauto.
Qed.

Lemma map_snd_combine {A B} (l1 : list A) (l2 : list B) :
  length l1 = length l2 -> map snd (combine l1 l2) = l2.
Proof.
  revert l2; induction l1; destruct l2; simpl; intros; try discriminate; auto.
  f_equal; auto.
Qed.

Lemma map_fst_combine {A B} (l1 : list A) (l2 : list B) :
  length l1 = length l2 -> map fst (combine l1 l2) = l1.
Proof.
  revert l2; induction l1; destruct l2; simpl; intros; try discriminate; auto.
  f_equal; auto.
Qed.

Lemma mapO_ext {A B} (f g : A -> option B) l :
  (forall x, In x l -> f x = g x) -> mapO f l = mapO g l.
Proof.
  induction l as [|x xs IH]; simpl; intros H; auto.
  rewrite (H x) by auto. rewrite IH by auto. reflexivity.
Qed.

Lemma length_set_nth {A} i (x : A) l : length (set_nth i x l) = length l.
Proof. revert i; induction l; destruct i; simpl; auto. Qed.

Lemma nth_error_set_nth_neq {A} i j (x : A) l :
  i <> j -> nth_error (set_nth i x l) j = nth_error l j.
Proof.
  revert i j; induction l as [|h t IH]; intros i j Hn; simpl.
  - reflexivity.
  - destruct i, j; simpl; auto; try congruence.
Qed.

Lemma nth_error_set_nth_eq {A} i (x y : A) l :
  nth_error (set_nth i x l) i = Some y -> y = x.
Proof.
  revert i; induction l as [|h t IH]; intros i; simpl.
  - destruct i; discriminate.
  - destruct i; simpl; [congruence|apply IH].
Qed.

Lemma node_vals_with n vs :
  length vs = length (node_vals n) -> node_vals (node_with n vs) = vs.
Proof.
  destruct n; simpl; auto. intros H. apply map_snd_combine.
  rewrite H. rewrite !map_length. reflexivity.
Qed.

Lemma node_tree_with n vs ts :
  length vs = length (node_vals n) -> node_tree (node_with n vs) ts = node_tree n ts.
Proof.
  destruct n; simpl; auto. intros H. rewrite map_fst_combine; auto.
  rewrite H. rewrite !map_length. reflexivity.
Qed.

(* ------------------------------------------------------------------ *)
(** * Reachability lemmas                                              *)
(* ------------------------------------------------------------------ *)

(* A set that contains the root and is closed under "child of" contains
   everything reachable. *)
Lemma reach_closed st v (P : nat -> Prop) :
  (forall a, v = HRef a -> P a) ->
  (forall a n b, P a -> lookup st a = Some n -> In b (node_refs n) -> P b) ->
  forall x, Reach st v x -> P x.
Proof. intros H0 HS x R. induction R; eauto. Qed.

Lemma reach_atom st a x : Reach st (HAtom a) x -> False.
Proof. apply (reach_closed st (HAtom a) (fun _ => False)); auto; discriminate. Qed.

(* Reachable from a child => reachable from the parent. *)
Lemma reach_child st a n c x :
  lookup st a = Some n -> In c (node_vals n) ->
  Reach st c x -> Reach st (HRef a) x.
Proof.
  intros Hl Hc R. induction R as [b Hb|p m b R IH Hp Hb].
  - subst c. eapply Reach_step; [apply Reach_root; reflexivity|exact Hl|].
    apply in_node_refs. exact Hc.
  - eapply Reach_step; eauto.
Qed.

(* [unfold] only looks at reachable nodes. *)
Lemma unfold_frame f : forall st st2 v,
  (forall x, Reach st v x -> lookup st2 x = lookup st x) ->
  unfold f st2 v = unfold f st v.
Proof.
  induction f as [|f IH]; intros st st2 v H; destruct v as [a|a]; simpl; auto.
  rewrite (H a) by (apply Reach_root; reflexivity).
  destruct (lookup st a) as [n|] eqn:El; auto.
  f_equal. apply mapO_ext. intros c Hc. apply IH.
  intros x R. apply H. eapply reach_child; eauto.
Qed.

(* Growing the store keeps every successful unfolding. *)
Lemma unfold_mono f : forall st ext v t,
  unfold f st v = Some t -> unfold f (st ++ ext) v = Some t.
Proof.
  induction f as [|f IH]; intros st ext v t H; destruct v as [a|a]; simpl in *; auto.
  destruct (lookup st a) as [n|] eqn:El; [|discriminate].
  unfold lookup in *. rewrite nth_error_app1 by (apply nth_error_Some; congruence).
  rewrite El.
  destruct (mapO (unfold f st) (node_vals n)) as [ts|] eqn:Em; [|discriminate].
  simpl in H. inversion H; subst.
  assert (Hm : mapO (unfold f (st ++ ext)) (node_vals n) = Some ts).
  { clear El H. revert ts Em. generalize (node_vals n) as l.
    induction l as [|x xs IHl]; simpl; intros ts Em; auto.
    destruct (unfold f st x) as [y|] eqn:Ex; [|discriminate].
    destruct (mapO (unfold f st) xs) as [ys|] eqn:Exs; [|discriminate].
    inversion Em; subst. rewrite (IH _ ext _ _ Ex). rewrite (IHl _ eq_refl). reflexivity. }
  rewrite Hm. reflexivity.
Qed.

Lemma mapO_unfold_mono f st ext l ts :
  mapO (unfold f st) l = Some ts -> mapO (unfold f (st ++ ext)) l = Some ts.
Proof.
  revert ts; induction l as [|x xs IHl]; simpl; intros ts Em; auto.
  destruct (unfold f st x) as [y|] eqn:Ex; [|discriminate].
  destruct (mapO (unfold f st) xs) as [ys|] eqn:Exs; [|discriminate].
  inversion Em; subst. rewrite (unfold_mono _ _ ext _ _ Ex).
  rewrite (IHl _ eq_refl). reflexivity.
Qed.

(* ------------------------------------------------------------------ *)
(** * The shape of what `_copy_unshared` allocates                     *)
(* ------------------------------------------------------------------ *)

(* [Fresh L ext vs]: [ext] is a block of nodes placed at addresses
   [L, L + length ext), and [vs] are values pointing into it, such that
     (1) the node at [L+i] only mentions addresses in [L, L+i)
         (fresh, and strictly older: no cycles);
     (2) [vs] only mention addresses of the block;
     (3) collecting every reference in [vs] and in the block gives a
         duplicate-free list: every address is referenced at most once. *)
Definition Fresh (L : nat) (ext : list hnode) (vs : list hval) : Prop :=
  (forall i n b, nth_error ext i = Some n -> In b (node_refs n) -> L <= b < L + i) /\
  (forall b, In b (flat_map val_refs vs) -> L <= b < L + length ext) /\
  NoDup (flat_map val_refs vs ++ flat_map node_refs ext).

Lemma fresh_ext_bound L ext vs :
  Fresh L ext vs ->
  forall b, In b (flat_map node_refs ext) -> L <= b < L + length ext.
Proof.
  intros (F1 & _ & _) b Hb. apply in_flat_map in Hb. destruct Hb as (n & Hn & Hb).
  apply In_nth_error in Hn. destruct Hn as (i & Hi).
  specialize (F1 i n b Hi Hb).
  assert (i < length ext) by (apply nth_error_Some; congruence). lia.
Qed.

Lemma fresh_nil L : Fresh L [] [].
Proof.
  repeat split; simpl; try contradiction; try constructor.
  all: destruct i; discriminate.
Qed.

Lemma fresh_atom L a : Fresh L [] [HAtom a].
Proof.
  repeat split; simpl; try contradiction; try constructor.
  all: destruct i; discriminate.
Qed.

(* Two consecutive blocks. *)
Lemma fresh_app L e1 e2 x xs :
  Fresh L e1 [x] -> Fresh (L + length e1) e2 xs -> Fresh L (e1 ++ e2) (x :: xs).
Proof.
  intros Fa Fb.
  pose proof (fresh_ext_bound _ _ _ Fa) as Ba.
  pose proof (fresh_ext_bound _ _ _ Fb) as Bb.
  destruct Fa as (A1 & A2 & A3). destruct Fb as (B1 & B2 & B3).
  simpl in A2, A3. rewrite app_nil_r in A2, A3.
  split; [|split].
  - intros i n b Hi Hb. destruct (lt_dec i (length e1)) as [Hlt|Hge].
    + rewrite nth_error_app1 in Hi by exact Hlt. eauto.
    + rewrite nth_error_app2 in Hi by lia. specialize (B1 _ _ _ Hi Hb). lia.
  - simpl. intros b Hb. rewrite app_length. apply in_app_or in Hb. destruct Hb as [Hb|Hb].
    + specialize (A2 _ Hb). lia.
    + specialize (B2 _ Hb). lia.
  - simpl. rewrite flat_map_app.
    apply Permutation_NoDup with
        (l := (val_refs x ++ flat_map node_refs e1) ++ (flat_map val_refs xs ++ flat_map node_refs e2)).
    + rewrite <- !app_assoc. apply Permutation_app_head.
      rewrite !app_assoc. apply Permutation_app_tail. apply Permutation_app_comm.
    + apply NoDup_app_intro; auto.
      intros b H1 H2.
      assert (b < L + length e1).
      { apply in_app_or in H1. destruct H1 as [H1|H1]; [apply A2 in H1|apply Ba in H1]; lia. }
      assert (L + length e1 <= b).
      { apply in_app_or in H2. destruct H2 as [H2|H2]; [apply B2 in H2|apply Bb in H2]; lia. }
      lia.
Qed.

(* Closing a block with the node that owns the values. *)
Lemma fresh_close L ext vs n :
  Fresh L ext vs -> length vs = length (node_vals n) ->
  Fresh L (ext ++ [node_with n vs]) [HRef (L + length ext)].
Proof.
  intros F Hlen. pose proof (fresh_ext_bound _ _ _ F) as Be.
  destruct F as (F1 & F2 & F3).
  assert (Hrefs : node_refs (node_with n vs) = flat_map val_refs vs).
  { unfold node_refs. rewrite node_vals_with; auto. }
  split; [|split].
  - intros i m b Hi Hb. destruct (lt_dec i (length ext)) as [Hlt|Hge].
    + rewrite nth_error_app1 in Hi by exact Hlt. eauto.
    + rewrite nth_error_app2 in Hi by lia.
      destruct (i - length ext) as [|k] eqn:Ek; simpl in Hi;
        [|destruct k; discriminate].
      inversion Hi; subst m. rewrite Hrefs in Hb. apply F2 in Hb. lia.
  - simpl. intros b [<-|[]]. rewrite app_length. simpl. lia.
  - simpl. rewrite flat_map_app. simpl. rewrite app_nil_r. rewrite Hrefs.
    constructor.
    + intros I. apply in_app_or in I. destruct I as [I|I]; [apply Be in I|apply F2 in I]; lia.
    + eapply Permutation_NoDup; [apply Permutation_app_comm|exact F3].
Qed.

Definition copy_ok (cp : store -> hval -> option (store * hval)) : Prop :=
  forall st v st' v', cp st v = Some (st', v') ->
    exists ext, st' = st ++ ext /\ Fresh (length st) ext [v'].

Lemma copy_list_spec cp : copy_ok cp ->
  forall l st st' l', copy_list cp st l = Some (st', l') ->
    exists ext, st' = st ++ ext /\ Fresh (length st) ext l' /\ length l' = length l.
Proof.
  intros Hcp. induction l as [|x xs IH]; simpl; intros st st' l' H.
  - inversion H; subst. exists []. rewrite app_nil_r. auto using fresh_nil.
  - destruct (cp st x) as [[st1 x']|] eqn:Ex; [|discriminate].
    destruct (copy_list cp st1 xs) as [[st2 xs']|] eqn:Exs; [|discriminate].
    inversion H; subst.
    destruct (Hcp _ _ _ _ Ex) as (e1 & -> & F1).
    destruct (IH _ _ _ Exs) as (e2 & -> & F2 & Hlen).
    exists (e1 ++ e2). rewrite app_assoc. split; [reflexivity|]. split.
    + apply fresh_app; auto. rewrite app_length in F2. exact F2.
    + simpl. congruence.
Qed.

(* The structural specification of `_copy_unshared`; the theorems of
   section 6 are read off it. *)
Lemma copy_spec fuel : copy_ok (copy_unshared fuel).
Proof.
  induction fuel as [|f IH]; intros st v st' v' H; destruct v as [a|a]; simpl in H.
  - inversion H; subst. exists []. rewrite app_nil_r. auto using fresh_atom.
  - discriminate.
  - inversion H; subst. exists []. rewrite app_nil_r. auto using fresh_atom.
  - destruct (lookup st a) as [n|] eqn:El; [|discriminate].
    destruct (copy_list (copy_unshared f) st (node_vals n)) as [[st1 vs']|] eqn:Ec; [|discriminate].
    inversion H; subst.
    destruct (copy_list_spec _ IH _ _ _ _ Ec) as (ext & -> & F & Hlen).
    exists (ext ++ [node_with n vs']). rewrite app_assoc. split; [reflexivity|].
    rewrite app_length. apply fresh_close; auto.
Qed.

(* Looking up a fresh address in [st ++ ext]. *)
Lemma lookup_ext (st : store) ext a n :
  length st <= a -> lookup (st ++ ext) a = Some n -> nth_error ext (a - length st) = Some n.
Proof. unfold lookup. intros Ha H. rewrite nth_error_app2 in H by exact Ha. exact H. Qed.

(* Fresh nodes only mention fresh (and strictly older) nodes. *)
Lemma fresh_child L (st : store) ext vs a n b :
  L = length st -> Fresh L ext vs ->
  L <= a -> lookup (st ++ ext) a = Some n -> In b (node_refs n) -> L <= b < a.
Proof.
  intros -> (F1 & _ & _) Ha Hl Hb. apply lookup_ext in Hl; auto.
  specialize (F1 _ _ _ Hl Hb). lia.
Qed.

(* From a fresh address one only reaches fresh addresses, none above it. *)
Lemma fresh_reach (st : store) ext vs a x :
  Fresh (length st) ext vs -> length st <= a ->
  Reach (st ++ ext) (HRef a) x -> length st <= x <= a.
Proof.
  intros F Ha. apply (reach_closed _ _ (fun x => length st <= x <= a)).
  - intros a' E. inversion E; subst. lia.
  - intros p n b Hp Hl Hb. pose proof (fresh_child _ st ext vs p n b eq_refl F) as H.
    specialize (H (proj1 Hp) Hl Hb). lia.
Qed.

(* ------------------------------------------------------------------ *)
(** * 6. Theorems                                                      *)
(* ------------------------------------------------------------------ *)

(** ** copy_fresh: the copy only occupies new addresses. *)
Theorem copy_fresh fuel st v st' v' :
  copy_unshared fuel st v = Some (st', v') ->
  (exists ext, st' = st ++ ext) /\
  firstn (length st) st' = st /\
  (forall a, Reach st' v' a -> length st <= a).
Proof.
  intros H. destruct (copy_spec _ _ _ _ _ H) as (ext & -> & F).
  split; [eauto|]. split.
  - rewrite firstn_app, Nat.sub_diag, firstn_all. simpl. apply app_nil_r.
  - intros a R. destruct v' as [c|r]; [exfalso; eapply reach_atom; eauto|].
    assert (length st <= r).
    { destruct F as (_ & F2 & _). apply (F2 r). simpl. auto. }
    eapply fresh_reach in R; eauto. lia.
Qed.

(* Sharper form used by [frame]: the fresh part is closed -- a fresh node
   never mentions an old address. *)
Lemma copy_closed fuel st v st' v' :
  copy_unshared fuel st v = Some (st', v') ->
  length st <= length st' /\
  (forall a, In a (val_refs v') -> length st <= a) /\
  (forall a n b, length st <= a -> lookup st' a = Some n -> In b (node_refs n) -> length st <= b).
Proof.
  intros H. destruct (copy_spec _ _ _ _ _ H) as (ext & -> & F).
  split; [rewrite app_length; lia|]. split.
  - intros a Ha. destruct F as (_ & F2 & _). apply (F2 a). simpl. rewrite app_nil_r. exact Ha.
  - intros a n b Ha Hl Hb. eapply fresh_child in Hl; eauto. lia.
Qed.

(** ** copy_value: the copy denotes the same tree. *)

Lemma copy_list_value f :
  (forall st v st' v', copy_unshared f st v = Some (st', v') ->
     forall f2 t, unfold f2 st v = Some t -> unfold f2 st' v' = Some t) ->
  forall l st st' l', copy_list (copy_unshared f) st l = Some (st', l') ->
    forall f2 ts, mapO (unfold f2 st) l = Some ts -> mapO (unfold f2 st') l' = Some ts.
Proof.
  intros IHf. induction l as [|x xs IH]; simpl; intros st st' l' H f2 ts Hm.
  - inversion H; subst. exact Hm.
  - destruct (copy_unshared f st x) as [[st1 x']|] eqn:Ex; [|discriminate].
    destruct (copy_list (copy_unshared f) st1 xs) as [[st2 xs']|] eqn:Exs; [|discriminate].
    inversion H; subst.
    destruct (unfold f2 st x) as [y|] eqn:Ux; [|discriminate].
    destruct (mapO (unfold f2 st) xs) as [ys|] eqn:Uxs; [|discriminate].
    inversion Hm; subst.
    destruct (copy_spec _ _ _ _ _ Ex) as (e1 & -> & _).
    destruct (copy_list_spec _ (copy_spec f) _ _ _ _ Exs) as (e2 & -> & _ & _).
    simpl.
    rewrite (unfold_mono _ _ e2 _ _ (IHf _ _ _ _ Ex _ _ Ux)).
    rewrite (IH _ _ _ Exs f2 ys (mapO_unfold_mono _ _ e1 _ _ Uxs)).
    reflexivity.
Qed.

(* With the very same fuel (so in particular "for some fuel3"). *)
Theorem copy_value fuel : forall st v st' v',
  copy_unshared fuel st v = Some (st', v') ->
  forall fuel2 t, unfold fuel2 st v = Some t -> unfold fuel2 st' v' = Some t.
Proof.
  induction fuel as [|f IH]; intros st v st' v' H f2 t U; destruct v as [a|a]; simpl in H.
  - inversion H; subst. exact U.
  - discriminate.
  - inversion H; subst. exact U.
  - destruct (lookup st a) as [n|] eqn:El; [|discriminate].
    destruct (copy_list (copy_unshared f) st (node_vals n)) as [[st1 vs']|] eqn:Ec; [|discriminate].
    inversion H; subst.
    destruct f2 as [|f2]; simpl in U; [discriminate|]. rewrite El in U.
    destruct (mapO (unfold f2 st) (node_vals n)) as [ts|] eqn:Em; [|discriminate].
    simpl in U. inversion U; subst.
    destruct (copy_list_spec _ (copy_spec f) _ _ _ _ Ec) as (ext & -> & _ & Hlen).
    pose proof (copy_list_value f IH _ _ _ _ Ec _ _ Em) as Hm.
    simpl. unfold lookup. rewrite nth_error_app2 by lia. rewrite Nat.sub_diag. simpl.
    rewrite node_vals_with by exact Hlen.
    rewrite (mapO_unfold_mono _ _ [node_with n vs'] _ _ Hm). simpl.
    rewrite node_tree_with by exact Hlen. reflexivity.
Qed.

(* Conversely, on a well-formed store (no dangling reference) a successful
   copy means that the original DOES denote a tree, and the copy denotes it
   too.  (Well-formedness is needed: with a dangling reference [HRef k] in the
   original, the copy of an earlier sibling may happen to be allocated at [k].) *)
Definition wf (st : store) : Prop :=
  forall a n b, lookup st a = Some n -> In b (node_refs n) -> b < length st.
Definition wf_val (st : store) (v : hval) : Prop :=
  forall b, In b (val_refs v) -> b < length st.

Lemma wf_reach st v x : wf st -> wf_val st v -> Reach st v x -> x < length st.
Proof.
  intros W Wv. apply (reach_closed st v (fun x => x < length st)).
  - intros a ->. apply Wv. simpl. auto.
  - intros a n b _ Hl Hb. eapply W; eauto.
Qed.

Lemma wf_unfold_ext f st ext v :
  wf st -> wf_val st v -> unfold f (st ++ ext) v = unfold f st v.
Proof.
  intros W Wv. apply unfold_frame. intros x R. unfold lookup.
  apply nth_error_app1. eapply wf_reach; eauto.
Qed.

Lemma wf_fresh st ext vs : wf st -> Fresh (length st) ext vs -> wf (st ++ ext).
Proof.
  intros W F a n b Hl Hb. rewrite app_length.
  destruct (lt_dec a (length st)) as [Hlt|Hge].
  - unfold lookup in Hl. rewrite nth_error_app1 in Hl by exact Hlt.
    specialize (W _ _ _ Hl Hb). lia.
  - assert (Ha : length st <= a) by lia.
    pose proof (fresh_child _ st ext vs a n b eq_refl F Ha Hl Hb).
    assert (a < length (st ++ ext)) by (apply nth_error_Some; unfold lookup in Hl; congruence).
    rewrite app_length in *. lia.
Qed.

Lemma wf_node_vals st a n c : wf st -> lookup st a = Some n -> In c (node_vals n) -> wf_val st c.
Proof.
  intros W Hl Hc b Hb. destruct c as [|r]; simpl in Hb; [contradiction|].
  destruct Hb as [<-|[]]. eapply W; eauto. apply in_node_refs. exact Hc.
Qed.

Lemma copy_list_total f :
  (forall st v st' v', wf st -> wf_val st v -> copy_unshared f st v = Some (st', v') ->
     exists t, unfold f st v = Some t) ->
  forall l st st' l', wf st -> (forall c, In c l -> wf_val st c) ->
    copy_list (copy_unshared f) st l = Some (st', l') ->
    exists ts, mapO (unfold f st) l = Some ts.
Proof.
  intros IHf. induction l as [|x xs IH]; simpl; intros st st' l' W Wl H; eauto.
  destruct (copy_unshared f st x) as [[st1 x']|] eqn:Ex; [|discriminate].
  destruct (copy_list (copy_unshared f) st1 xs) as [[st2 xs']|] eqn:Exs; [|discriminate].
  destruct (IHf _ _ _ _ W (Wl x (or_introl eq_refl)) Ex) as (y & Uy). rewrite Uy.
  destruct (copy_spec _ _ _ _ _ Ex) as (e1 & -> & F).
  assert (W1 : wf (st ++ e1)) by (eapply wf_fresh; eauto).
  assert (Wl1 : forall c, In c xs -> wf_val (st ++ e1) c).
  { intros c Hc b Hb. rewrite app_length. specialize (Wl c (or_intror Hc) b Hb). lia. }
  destruct (IH _ _ _ W1 Wl1 Exs) as (ys & Uys).
  assert (Hs : mapO (unfold f st) xs = mapO (unfold f (st ++ e1)) xs).
  { apply mapO_ext. intros c Hc. symmetry. apply wf_unfold_ext; auto. }
  rewrite Hs, Uys. eauto.
Qed.

Lemma copy_total fuel : forall st v st' v',
  wf st -> wf_val st v ->
  copy_unshared fuel st v = Some (st', v') -> exists t, unfold fuel st v = Some t.
Proof.
  induction fuel as [|f IH]; intros st v st' v' W Wv H; destruct v as [a|a]; simpl in H |- *; eauto.
  - discriminate.
  - destruct (lookup st a) as [n|] eqn:El; [|discriminate].
    destruct (copy_list (copy_unshared f) st (node_vals n)) as [[st1 vs']|] eqn:Ec; [|discriminate].
    destruct (copy_list_total f IH _ _ _ _ W (fun c Hc => wf_node_vals _ _ _ _ W El Hc) Ec)
      as (ts & Hts).
    rewrite Hts. simpl. eauto.
Qed.

Theorem copy_value_total fuel st v st' v' :
  wf st -> wf_val st v ->
  copy_unshared fuel st v = Some (st', v') ->
  exists t, unfold fuel st v = Some t /\ unfold fuel st' v' = Some t.
Proof.
  intros W Wv H. destruct (copy_total _ _ _ _ _ W Wv H) as (t & U).
  exists t. split; auto. eapply copy_value; eauto.
Qed.

(** ** frame: a consumer of the copy cannot touch the caller's store. *)

(* The invariant: everything the consumer holds is at or above [L], and the
   part of the store at or above [L] never mentions an address below [L]. *)
Definition Inv (L : nat) (root : hval) (K : nat -> Prop) (st : store) : Prop :=
  L <= length st /\
  (forall a, In a (val_refs root) -> L <= a) /\
  (forall x, K x -> L <= x) /\
  (forall a n b, L <= a -> lookup st a = Some n -> In b (node_refs n) -> L <= b).

Lemma inv_reach L root K st x : Inv L root K st -> Reach st root x -> L <= x.
Proof.
  intros (_ & I1 & _ & I3). apply (reach_closed st root (fun x => L <= x)).
  - intros a ->. apply I1. simpl. auto.
  - intros a n b Ha Hl Hb. eauto.
Qed.

Lemma frame_gen L root ms : forall K st,
  Inv L root K st -> Confined_from root K st ms ->
  forall a, a < L -> nth_error (exec st ms) a = nth_error st a.
Proof.
  unfold exec. induction ms as [|m ms IH]; intros K st I C a Ha; simpl; auto.
  assert (IH' : forall x, K x \/ Reach st root x -> L <= x).
  { intros x [Hx|Hx]; [destruct I as (_ & _ & I2 & _); auto|eapply inv_reach; eauto]. }
  destruct I as (I0 & I1 & I2 & I3).
  simpl in C. destruct m as [p n|n].
  - destruct C as (Hp & Hn & C).
    assert (I' : Inv L root (fun x => K x \/ Reach st root x) (exec1 st (MSetNode p n))).
    { simpl. split; [rewrite length_set_nth; exact I0|]. split; [exact I1|]. split; [exact IH'|].
      intros q m b Hq Hl Hb. unfold lookup in Hl.
      destruct (Nat.eq_dec p q) as [->|Hne].
      - apply nth_error_set_nth_eq in Hl. subst m. auto.
      - rewrite nth_error_set_nth_neq in Hl by exact Hne. eauto. }
    rewrite (IH _ _ I' C a Ha).
    simpl. apply nth_error_set_nth_neq. apply IH' in Hp. lia.
  - destruct C as (Hn & C).
    assert (I' : Inv L root (fun x => (K x \/ Reach st root x) \/ x = length st)
                     (exec1 st (MAlloc n))).
    { simpl. split; [rewrite app_length; lia|]. split; [exact I1|]. split.
      - intros x [Hx| ->]; auto.
      - intros q m b Hq Hl Hb. unfold lookup in Hl.
        destruct (lt_dec q (length st)) as [Hlt|Hge].
        + rewrite nth_error_app1 in Hl by exact Hlt. eauto.
        + rewrite nth_error_app2 in Hl by lia.
          destruct (q - length st) as [|k]; simpl in Hl; [|destruct k; discriminate].
          inversion Hl; subst m. auto. }
    rewrite (IH _ _ I' C a Ha).
    simpl. apply nth_error_app1. lia.
Qed.

(* MAIN THEOREM.  Whatever a consumer does starting from the copy, every node
   of the caller's store stays as it was. *)
Theorem frame fuel st v st' v' ms :
  copy_unshared fuel st v = Some (st', v') ->
  Confined v' st' ms ->
  forall a, a < length st -> nth_error (exec st' ms) a = nth_error st a.
Proof.
  intros H C a Ha.
  destruct (copy_closed _ _ _ _ _ H) as (C0 & C1 & C2).
  rewrite (frame_gen (length st) v' ms (fun _ => False) st'); auto.
  - destruct (copy_spec _ _ _ _ _ H) as (ext & -> & _). apply nth_error_app1. exact Ha.
  - repeat split; auto. intros x [].
Qed.

(* Hence the value the caller sees is unchanged (for a caller's value that has
   no dangling reference). *)
Corollary frame_value fuel st v st' v' ms :
  copy_unshared fuel st v = Some (st', v') ->
  Confined v' st' ms ->
  forall w, (forall x, Reach st w x -> x < length st) ->
  forall f, unfold f (exec st' ms) w = unfold f st w.
Proof.
  intros H C w Hw f. apply unfold_frame. intros x R. unfold lookup.
  eapply frame; eauto.
Qed.

(** ** copy_unshared_tree: the copy is a tree. *)

(* Collect the root reference and every reference stored in a fresh node:
   no address occurs twice.  So the root is referenced by no node, and every
   other fresh node is referenced from at most one slot.  Moreover the fresh
   nodes only mention fresh, strictly smaller addresses (no cycle). *)
Theorem copy_unshared_tree fuel st v st' v' :
  copy_unshared fuel st v = Some (st', v') ->
  exists ext, st' = st ++ ext /\
    NoDup (val_refs v' ++ flat_map node_refs ext) /\
    (forall a n b, length st <= a -> lookup st' a = Some n -> In b (node_refs n) ->
                   length st <= b < a).
Proof.
  intros H. destruct (copy_spec _ _ _ _ _ H) as (ext & -> & F).
  exists ext. split; [reflexivity|]. split.
  - destruct F as (_ & _ & F3). simpl in F3. rewrite app_nil_r in F3. exact F3.
  - intros a n b Ha Hl Hb. eapply fresh_child; eauto.
Qed.

(* Consequences, for any block [ext] with the two tree properties. *)
Section Tree.
  Variable st : store.
  Variable ext : list hnode.
  Let L := length st.
  Let st' := st ++ ext.
  Hypothesis Hdown : forall i n b, nth_error ext i = Some n -> In b (node_refs n) -> L <= b < L + i.
  Hypothesis Hnodup : NoDup (flat_map node_refs ext).

  Let FreshE : Fresh L ext [].
  Proof. split; [exact Hdown|]. split; [simpl; intros ? []|simpl; exact Hnodup]. Qed.

  (* A fresh address has at most one parent. *)
  Lemma unique_parent p q n m x :
    L <= p -> L <= q -> lookup st' p = Some n -> lookup st' q = Some m ->
    In x (node_refs n) -> In x (node_refs m) -> p = q.
  Proof.
    intros Hp Hq Ln Lm Xn Xm.
    apply lookup_ext in Ln; auto. apply lookup_ext in Lm; auto.
    pose proof (NoDup_flat_map_unique _ _ Hnodup _ _ _ _ _ Ln Lm Xn Xm). unfold L in *. lia.
  Qed.

  (* Two fresh subtrees that meet are nested. *)
  Lemma reach_meet a b x :
    L <= a -> L <= b ->
    Reach st' (HRef a) x -> Reach st' (HRef b) x ->
    Reach st' (HRef a) b \/ Reach st' (HRef b) a.
  Proof.
    intros Ha Hb Ra. revert b Hb. induction Ra as [a' E|p n x Ra IH Hl Hx]; intros b Hb Rb.
    - inversion E; subst a'. right. exact Rb.
    - inversion Rb as [b' E|q m x' Rq Hlq Hxq].
      + inversion E; subst b'. left. eapply Reach_step; eauto.
      + assert (L <= p) by (eapply (fresh_reach st ext [] a p FreshE Ha); exact Ra).
        assert (L <= q) by (eapply (fresh_reach st ext [] b q FreshE Hb); exact Rq).
        assert (p = q) by (eapply unique_parent; eauto). subst q.
        apply IH; auto.
  Qed.

  (* A child of [p] is not reachable from another child of [p]. *)
  Lemma child_not_under_sibling p n a b :
    L <= p -> lookup st' p = Some n ->
    In a (node_refs n) -> In b (node_refs n) -> a <> b ->
    Reach st' (HRef a) b -> False.
  Proof.
    intros Hp Hl Ia Ib Hne R.
    assert (Ba : L <= a < p) by (eapply (fresh_child L st ext [] p n a); eauto).
    inversion R as [b' E|q m x Rq Hlq Hxq].
    - inversion E; subst. congruence.
    - assert (Bq : L <= q <= a) by (eapply (fresh_reach st ext [] a q FreshE); [lia|exact Rq]).
      assert (p = q) by (eapply unique_parent; eauto; lia). lia.
  Qed.

  (* Distinct slots of a fresh node have disjoint reachable sets. *)
  Lemma siblings_disjoint p n i j ci cj x :
    L <= p -> lookup st' p = Some n ->
    nth_error (node_vals n) i = Some ci -> nth_error (node_vals n) j = Some cj -> i <> j ->
    Reach st' ci x -> Reach st' cj x -> False.
  Proof.
    intros Hp Hl Hi Hj Hne Ri Rj.
    destruct ci as [|a]; [eapply reach_atom; eauto|].
    destruct cj as [|b]; [eapply reach_atom; eauto|].
    assert (Ia : In a (node_refs n)) by (apply in_node_refs; eapply nth_error_In; eauto).
    assert (Ib : In b (node_refs n)) by (apply in_node_refs; eapply nth_error_In; eauto).
    assert (Hab : a <> b).
    { intros ->. apply Hne.
      assert (NDn : NoDup (node_refs n)).
      { apply lookup_ext in Hl; auto.
        eapply NoDup_flat_map_in; [exact Hnodup|]. eapply nth_error_In; eauto. }
      eapply (NoDup_flat_map_unique val_refs (node_vals n) NDn i j _ _ b Hi Hj); simpl; auto. }
    assert (Ba : L <= a < p) by (eapply (fresh_child L st ext [] p n a); eauto).
    assert (Bb : L <= b < p) by (eapply (fresh_child L st ext [] p n b); eauto).
    destruct (reach_meet a b x) as [R|R]; auto; try lia.
    - eapply (child_not_under_sibling p n a b); eauto.
    - eapply (child_not_under_sibling p n b a); eauto.
  Qed.
End Tree.

(* In the copy: take any fresh node [p] and two different slots [i], [j] of it.
   Replacing ANY node under slot [i] (anything reachable from it, at any depth)
   leaves what slot [j] denotes unchanged.  With sharing this fails (see the
   examples): consuming one entry would also consume the other. *)
Theorem sibling_independent fuel st v st' v' p n i j ci cj :
  copy_unshared fuel st v = Some (st', v') ->
  length st <= p -> lookup st' p = Some n ->
  nth_error (node_vals n) i = Some ci -> nth_error (node_vals n) j = Some cj -> i <> j ->
  forall x m, Reach st' ci x ->
  forall f, unfold f (set_nth x m st') cj = unfold f st' cj.
Proof.
  intros H Hp Hl Hi Hj Hne x m Rx f.
  destruct (copy_spec _ _ _ _ _ H) as (ext & -> & (F1 & _ & F3)).
  apply NoDup_app_r in F3.
  apply unfold_frame. intros y Ry. unfold lookup. apply nth_error_set_nth_neq.
  intros ->. eapply (siblings_disjoint st ext F1 F3 p n i j ci cj y); eauto.
Qed.

(* The nodes of the copy are exactly the fresh ones reachable from its root,
   so "fresh node" above can be read "node of the copy". *)
Corollary sibling_independent_reach fuel st v st' v' p n i j ci cj :
  copy_unshared fuel st v = Some (st', v') ->
  Reach st' v' p -> lookup st' p = Some n ->
  nth_error (node_vals n) i = Some ci -> nth_error (node_vals n) j = Some cj -> i <> j ->
  forall x m, Reach st' ci x ->
  forall f, unfold f (set_nth x m st') cj = unfold f st' cj.
Proof.
  intros H Rp. eapply sibling_independent; eauto.
  destruct (copy_fresh _ _ _ _ _ H) as (_ & _ & Hr). auto.
Qed.

(* ------------------------------------------------------------------ *)
(** * 7. The defect, concretely                                        *)
(* ------------------------------------------------------------------ *)

(* A sharing-preserving copy, like [copy.deepcopy]: it memoises by address,
   so an object met twice is copied ONCE and both places point to the single
   copy. *)
Fixpoint assoc (a : nat) (memo : list (nat * nat)) : option nat :=
  match memo with
  | [] => None
  | (k, k') :: rest => if Nat.eqb a k then Some k' else assoc a rest
  end.

Fixpoint copy_shared_list
         (cp : list (nat * nat) -> store -> hval -> option (list (nat * nat) * store * hval))
         (memo : list (nat * nat)) (st : store) (l : list hval)
  : option (list (nat * nat) * store * list hval) :=
  match l with
  | [] => Some (memo, st, [])
  | x :: xs =>
    match cp memo st x with
    | None => None
    | Some (memo1, st1, x') =>
      match copy_shared_list cp memo1 st1 xs with
      | None => None
      | Some (memo2, st2, xs') => Some (memo2, st2, x' :: xs')
      end
    end
  end.

Fixpoint copy_shared (fuel : nat) (memo : list (nat * nat)) (st : store) (v : hval)
  : option (list (nat * nat) * store * hval) :=
  match v with
  | HAtom _ => Some (memo, st, v)
  | HRef a =>
    match assoc a memo with
    | Some a' => Some (memo, st, HRef a')
    | None =>
      match fuel with
      | 0 => None
      | S f =>
        match lookup st a with
        | None => None
        | Some n =>
          match copy_shared_list (copy_shared f) memo st (node_vals n) with
          | None => None
          | Some (memo1, st1, vs') =>
            Some ((a, length st1) :: memo1, st1 ++ [node_with n vs'], HRef (length st1))
          end
        end
      end
    end
  end.

Section Examples.
  Local Open Scope string_scope.

  Let one := HAtom (ANum 1).
  Let two := HAtom (ANum 2).

  (* The caller's data:   shared = [1, 2];  data = {"a": shared, "b": shared}
     address 0 is the shared list, address 1 the dict. *)
  Definition st0 : store :=
    [ HList [one; two];
      HDict [("a", HRef 0); ("b", HRef 0)] ].
  Definition data0 : hval := HRef 1.

  (* `_copy_unshared`: the two entries get DIFFERENT fresh lists (2 and 3). *)
  Example ex_unshared :
    copy_unshared 3 st0 data0 =
    Some ((st0 ++ [ HList [one; two];
                   HList [one; two];
                   HDict [("a", HRef 2); ("b", HRef 3)] ])%list,
          HRef 4).
  Proof. vm_compute. reflexivity. Qed.

  (* A sharing-preserving copy: ONE fresh list (2) for both entries. *)
  Example ex_shared :
    option_map (fun r => (snd (fst r), snd r)) (copy_shared 3 [] st0 data0) =
    Some ((st0 ++ [ HList [one; two];
                   HDict [("a", HRef 2); ("b", HRef 2)] ])%list,
          HRef 3).
  Proof. vm_compute. reflexivity. Qed.

  Definition st_unshared : store :=
    match copy_unshared 3 st0 data0 with Some (s, _) => s | None => [] end.
  Definition st_shared : store :=
    match copy_shared 3 [] st0 data0 with Some (_, s, _) => s | None => [] end.

  (* Both copies denote the caller's value. *)
  Example ex_same_value :
    unfold 3 st0 data0 = Some (TDict [("a", TList [TAtom (ANum 1); TAtom (ANum 2)]);
                                      ("b", TList [TAtom (ANum 1); TAtom (ANum 2)])])
    /\ unfold 3 st_unshared (HRef 4) = unfold 3 st0 data0
    /\ unfold 3 st_shared (HRef 3) = unfold 3 st0 data0.
  Proof. vm_compute. auto. Qed.

  (* The consumer empties the list under "a" (pops all its elements): in both
     copies that list is at address 2. *)
  Definition consume_a : list mut := [MSetNode 2 (HList [])].

  (* After `_copy_unshared`: entry "b" is intact. *)
  Example ex_consume_unshared :
    unfold 3 (exec st_unshared consume_a) (HRef 4) =
    Some (TDict [("a", TList []);
                 ("b", TList [TAtom (ANum 1); TAtom (ANum 2)])]).
  Proof. vm_compute. reflexivity. Qed.

  (* After a sharing-preserving copy: consuming "a" has emptied "b" as well --
     the earlier defect. *)
  Example ex_consume_shared :
    unfold 3 (exec st_shared consume_a) (HRef 3) =
    Some (TDict [("a", TList []); ("b", TList [])]).
  Proof. vm_compute. reflexivity. Qed.

  (* Either way the caller's own data is untouched (this is [frame]) ... *)
  Example ex_caller_untouched :
    unfold 3 (exec st_unshared consume_a) data0 = unfold 3 st0 data0 /\
    unfold 3 (exec st_shared consume_a) data0 = unfold 3 st0 data0.
  Proof. vm_compute. auto. Qed.

  (* ... whereas consuming without any copy destroys it. *)
  Example ex_no_copy :
    unfold 3 (exec st0 [MSetNode 0 (HList [])]) data0 =
    Some (TDict [("a", TList []); ("b", TList [])]).
  Proof. vm_compute. reflexivity. Qed.

  (* The consumer's step is confined to the copy. *)
  Example ex_confined : Confined (HRef 4) st_unshared consume_a.
  Proof.
    unfold Confined, consume_a. simpl. repeat split.
    - right. eapply Reach_step with (a := 4) (n := HDict [("a", HRef 2); ("b", HRef 3)]).
      + apply Reach_root. reflexivity.
      + reflexivity.
      + simpl. auto.
    - intros b [].
  Qed.
End Examples.

(* ------------------------------------------------------------------ *)
(** * Assumptions                                                      *)
(* ------------------------------------------------------------------ *)
Print Assumptions copy_fresh.
Print Assumptions copy_value.
Print Assumptions copy_value_total.
Print Assumptions frame.
Print Assumptions frame_value.
Print Assumptions copy_unshared_tree.
Print Assumptions sibling_independent.
Print Assumptions sibling_independent_reach.
Print Assumptions Confined_simple_Confined.
Print Assumptions ex_unshared.
Print Assumptions ex_shared.
Print Assumptions ex_consume_unshared.
Print Assumptions ex_consume_shared.
