(* demes.to_ms (demes/ms.py:904-1047) up to the rendering of the options:
   the number of demes and the list of events, in the order they are printed. *)
From Coq Require Import Bool List String.
From Demes Require Import Base.Num Base.Py Model.MDM Model.InGen Model.MigMat Model.MsOpt.
Import ListNotations.
Local Open Scope string_scope.
Local Open Scope list_scope.

Section ToMs.
  Context {N : NumOps}.

  Definition nneg (x : num) : num := nsub n0 x.              (* -x *)

  (* get_growth_rate *)
  Definition growth_rate (n4N0 : num) (e : epoch) : res num :=
    raise_if (negb (String.eqb (e_sf e) "constant" || String.eqb (e_sf e) "exponential")) ValueErr ;;;
    if nneq (e_esize e) (e_ssize e) then
      dt <- pdiv (nsub (e_start e) (e_end e)) n4N0 ;;
      q <- pdiv (e_ssize e) (e_esize e) ;;
      l <- plog q ;;
      r <- pdiv (nneg l) dt ;;
      Ok r
    else Ok n0.

  (* attrs converters/validators of the option records that can fail here *)
  Definition mk_n (t : num) (i : nat) (x : num) : res msev :=
    raise_if (nlt t n0) ValueErr ;;; raise_if (nlt x n0) ValueErr ;;; Ok (Evn (nfloat t) i (nfloat x) true).
  Definition mk_g (t : num) (i : nat) (a : num) : res msev :=
    raise_if (nlt t n0) ValueErr ;;; raise_if (nisinf a) ValueErr ;;; Ok (Evg (nfloat t) i (nfloat a)).
  Definition mk_s (t : num) (i : nat) (p : num) : res msev :=
    raise_if (nlt t n0) ValueErr ;;; raise_if (negb (nle n0 p && nle p n1)) ValueErr ;;;
    Ok (Evs (nfloat t) i (nfloat p)).
  Definition mk_j (t : num) (i j : nat) : res msev :=
    raise_if (nlt t n0) ValueErr ;;; Ok (Evj (nfloat t) i j).
  Definition mk_m (t : num) (i j : nat) (x : num) : res msev :=
    raise_if (nlt t n0) ValueErr ;;; raise_if (nlt x n0) ValueErr ;;; Ok (Evm (nfloat t) i j (nfloat x)).

  (* size / growth events of one deme, walking its epochs from the present *)
  Fixpoint size_events (N0 n4N0 : num) (j : nat) (eps_rev : list epoch) (size growth : num)
    : res (list msev) :=
    match eps_rev with
    | [] => Ok []
    | e :: rest =>
        r1 <- (if nneq size (e_esize e) then
                 x <- pdiv (e_esize e) N0 ;; ev <- mk_n (e_end e) j x ;; Ok [ev]
               else Ok []) ;;
        (* -en resets the growth rate in ms *)
        let growth := if nneq size (e_esize e) then n0 else growth in
        alpha <- growth_rate n4N0 e ;;
        r2 <- (if nneq growth alpha then ev <- mk_g (e_end e) j alpha ;; Ok [ev] else Ok []) ;;
        let growth' := if nneq growth alpha then alpha else growth in
        rest' <- size_events N0 n4N0 j rest (e_ssize e) growth' ;;
        Ok (r1 ++ r2 ++ rest')
    end.

  Fixpoint drop {A} (k : nat) (l : list A) : list A :=
    match k, l with O, _ => l | S k', _ :: l' => drop k' l' | S _, [] => [] end.

  (* sorted(tuple(reversed(pulses)) + tuple(demes), key=time): stable ascending *)
  Inductive dp := DP_deme (d : deme) | DP_pulse (p : pulse).
  Definition dp_time (x : dp) : num :=
    match x with DP_deme d => d_start d | DP_pulse p => p_time p end.
  Fixpoint insert_dp (x : dp) (l : list dp) : list dp :=
    match l with
    | [] => [x]
    | y :: l' => if nlt (dp_time y) (dp_time x) then y :: insert_dp x l' else x :: l
    end.
  Definition sort_dp (l : list dp) : list dp := fold_right insert_dp [] l.

  Definition id_of (names : list string) (nm : string) : res nat :=
    match index_of nm (rev names) with
    | Some i => Ok (List.length names - i)            (* 1-based; later duplicates win *)
    | None => Err KeyErr
    end.

  (* -es/-ej events for one deme's ancestry; returns events and the updated population count *)
  Fixpoint ancestry_events (names : list string) (d : deme) (self : nat) (k : nat)
           (ancs : list string) (num_demes : nat) : res (list msev * nat) :=
    match ancs with
    | [] => Ok ([], num_demes)
    | a :: rest =>
        anc_id <- id_of names a ;;
        pk <- (match nth_error (d_props d) k with Some p => Ok p | None => Err IndexErr end) ;;
        prop <- pdiv pk (pysum (drop k (d_props d))) ;;
        match rest with
        | [] =>
            raise_if (negb (isclose0 prop n1)) AssertErr ;;;
            e <- mk_j (d_start d) self anc_id ;; Ok ([e], num_demes)
        | _ =>
            let nid := S num_demes in
            e1 <- mk_s (d_start d) self (nsub n1 prop) ;;
            e2 <- mk_j (d_start d) nid anc_id ;;
            r <- ancestry_events names d self (S k) rest nid ;;
            Ok (e1 :: e2 :: fst r, snd r)
        end
    end.

  (* everything up to the sorted event list, times still in generations *)
  Definition to_ms_unscaled (g0 : graph) (N0 : num) : res (nat * list msev) :=
    g <- in_generations g0 ;;
    let names := map d_name (g_demes g) in
    let n := List.length (g_demes g) in
    let n4N0 := nmul n4 N0 in
    sz <- foldM (fun (acc : list msev * nat) d =>
                   evs <- size_events N0 n4N0 (snd acc) (rev (d_epochs d)) N0 n0 ;;
                   Ok (fst acc ++ evs, S (snd acc)))
                (g_demes g) ([], 1) ;;
    let dps := sort_dp (map DP_pulse (rev (g_pulses g)) ++ map DP_deme (g_demes g)) in
    sj <- foldM (fun (acc : list msev * nat) x =>
                   match x with
                   | DP_deme d =>
                       self <- id_of names (d_name d) ;;
                       r <- ancestry_events names d self 0 (d_anc d) (snd acc) ;;
                       Ok (fst acc ++ fst r, snd r)
                   | DP_pulse p =>
                       let nid := S (snd acc) in
                       raise_if (Nat.ltb 1 (List.length (p_srcs p))) ValueErr ;;;
                       dst <- id_of names (p_dst p) ;;
                       p0 <- (match p_props p with x :: _ => Ok x | [] => Err IndexErr end) ;;
                       s0 <- (match p_srcs p with x :: _ => Ok x | [] => Err IndexErr end) ;;
                       e1 <- mk_s (p_time p) dst (nsub n1 p0) ;;
                       src <- id_of names s0 ;;
                       e2 <- mk_j (p_time p) nid src ;;
                       Ok (fst acc ++ [e1; e2], nid)
                   end)
                dps ([], n) ;;
    off <- foldM (fun acc m =>
                    dd <- lookup g (m_dst m) ;; sd <- lookup g (m_src m) ;;
                    if negb (nisinf (m_start m)) && nneq (m_start m) (d_start dd)
                       && nneq (m_start m) (d_start sd) then
                      i <- id_of names (m_dst m) ;; j <- id_of names (m_src m) ;;
                      e <- mk_m (m_start m) i j n0 ;; Ok (acc ++ [e])
                    else Ok acc)
                 (g_migs g) [] ;;
    on <- foldM (fun acc m =>
                   i <- id_of names (m_dst m) ;; j <- id_of names (m_src m) ;;
                   e <- mk_m (m_end m) i j (nmul n4N0 (m_rate m)) ;; Ok (acc ++ [e]))
                (g_migs g) [] ;;
    Ok (n, sort_events (fst sz ++ fst sj ++ off ++ on)).

  (* ... then every time divided by 4*N0 *)
  Definition to_ms_events (g0 : graph) (N0 : num) : res (nat * list msev) :=
    r <- to_ms_unscaled g0 N0 ;;
    let n4N0 := nmul n4 N0 in
    evs' <- mapM (fun e => t <- pdiv (ev_time e) n4N0 ;; Ok (set_time e t)) (snd r) ;;
    Ok (fst r, evs').
End ToMs.
