(* Deme.size_at  (demes/demes.py:1253-1288) *)
From Coq Require Import Bool List String.
From Demes Require Import Base.Num Base.Py Model.MDM.
Import ListNotations.
Local Open Scope string_scope.
Local Open Scope list_scope.

Section SizeAt.
  Context {N : NumOps}.

  (* epoch.start_time > time >= epoch.end_time *)
  Definition epoch_owns (t : num) (e : epoch) : bool :=
    ngt (e_start e) t && nge t (e_end e).

  (* min(max(N, lo), hi) with lo = min(start_size, end_size), hi = max(start_size, end_size):
     rounding in the interpolation must not take the size outside the range of the epoch's sizes *)
  Definition clamp_size (e : epoch) (x : num) : num :=
    pymin (pymax x (pymin (e_ssize e) (e_esize e))) (pymax (e_ssize e) (e_esize e)).

  Definition size_in_epoch (e : epoch) (t : num) : res num :=
    if isclose0 t (e_end e) || String.eqb (e_sf e) "constant"
       || neqb (e_ssize e) (e_esize e) then Ok (clamp_size e (e_esize e))
    else if String.eqb (e_sf e) "exponential" then
      dt <- pdiv (nsub (e_start e) t) (nsub (e_start e) (e_end e)) ;;
      q <- pdiv (e_esize e) (e_ssize e) ;;
      r <- plog q ;;
      x <- pexp (nmul r dt) ;;
      Ok (clamp_size e (nmul (e_ssize e) x))
    else if String.eqb (e_sf e) "linear" then
      dt <- pdiv (nsub (e_start e) t) (nsub (e_start e) (e_end e)) ;;
      Ok (clamp_size e (nadd (e_ssize e) (nmul (nsub (e_esize e) (e_ssize e)) dt)))
    else Err OtherErr.

  Definition size_at (d : deme) (t : num) : res num :=
    if nisinf t && nisinf (d_start d) then
      match d_epochs d with
      | e :: _ => Ok (e_ssize e)
      | [] => Err IndexErr
      end
    else
      match find (epoch_owns t) (d_epochs d) with
      | None => Ok n0
      | Some e => size_in_epoch e t
      end.
End SizeAt.
