(* demes/load_dump.py: _stringify_infinities, _unstringify_infinities,
   _no_null_values and the loader / dumper pipelines at the level of document
   values (the YAML / JSON text layer is external). *)
From Coq Require Import Bool List String.
From Demes Require Import Base.Num Base.Py Model.MDM Model.Codec Model.Resolve Model.Simplify.
Import ListNotations.
Local Open Scope string_scope.
Local Open Scope list_scope.

Section IO.
  Context {N : NumOps}.

  Definition INFINITY_STR := "Infinity".

  Fixpoint dict_replace (k : string) (v : jv) (kv : list (string * jv)) : list (string * jv) :=
    match kv with
    | [] => []
    | (k', v') :: kv' => if String.eqb k k' then (k', v) :: kv' else (k', v') :: dict_replace k v kv'
    end.

  (* if "start_time" in d and math.isinf(d["start_time"]): d["start_time"] = "Infinity" *)
  Definition stringify_start (v : jv) : res jv :=
    match v with
    | JDict kv =>
        match assoc "start_time" kv with
        | Some (JNum x) => Ok (if nisinf x then JDict (dict_replace "start_time" (JStr INFINITY_STR) kv) else v)
        | Some (JBool _) => Ok v
        | Some _ => Err TypeErr                 (* math.isinf of a non-number *)
        | None => Ok v
        end
    | _ => Err TypeErr
    end.

  Definition map_field (k : string) (required : bool) (f : jv -> res jv) (kv : list (string * jv))
    : res (list (string * jv)) :=
    match assoc k kv with
    | None => if required then Err KeyErr else Ok kv
    | Some (JList l) => l' <- mapM f l ;; Ok (dict_replace k (JList l') kv)
    | Some _ => Err TypeErr
    end.

  Definition stringify_infinities (data : jv) : res jv :=
    match data with
    | JDict kv =>
        kv1 <- map_field "demes" true stringify_start kv ;;
        kv2 <- map_field "migrations" false stringify_start kv1 ;;
        Ok (JDict kv2)
    | _ => Err TypeErr
    end.

  (* start_time = d.get("start_time"); if start_time == "Infinity": d["start_time"] = inf *)
  Definition unstringify_start (v : jv) : res jv :=
    match v with
    | JDict kv =>
        match assoc "start_time" kv with
        | Some (JStr s) => Ok (if String.eqb s INFINITY_STR
                               then JDict (dict_replace "start_time" (JNum ninf) kv) else v)
        | _ => Ok v
        end
    | _ => Err OtherErr                        (* AttributeError: no .get *)
    end.

  Definition unstringify_infinities (data : jv) : res jv :=
    match data with
    | JDict kv =>
        kv1 <- map_field "demes" true unstringify_start kv ;;
        kv2 <- map_field "migrations" false unstringify_start kv1 ;;
        kv3 <- (match assoc "defaults" kv2 with
                | None => Ok kv2
                | Some (JDict dv) =>
                    dv1 <- (match assoc "migration" dv with
                            | Some m => m' <- unstringify_start m ;; Ok (dict_replace "migration" m' dv)
                            | None => Ok dv end) ;;
                    dv2 <- (match assoc "deme" dv1 with
                            | Some m => m' <- unstringify_start m ;; Ok (dict_replace "deme" m' dv1)
                            | None => Ok dv1 end) ;;
                    Ok (dict_replace "defaults" (JDict dv2) kv2)
                | Some (JList _) => Ok kv2      (* iterating a list of non-matching items *)
                | Some (JStr _) => Ok kv2
                | Some _ => Err TypeErr
                end) ;;
        Ok (JDict kv3)
    | _ => Err TypeErr
    end.

  (* _no_null_values: the walker enters dicts, lists of dicts and lists of scalars, but
     not lists nested in lists; top-level "metadata" is skipped *)
  Fixpoint no_nulls (fuel : nat) (v : jv) : bool :=
    match fuel with
    | O => true
    | S fuel' =>
        match v with
        | JDict kv =>
            forallb (fun p =>
                       match snd p with
                       | JDict _ => no_nulls fuel' (snd p)
                       | JList l => forallb (fun e => match e with
                                                      | JDict _ => no_nulls fuel' e
                                                      | JNull => false
                                                      | _ => true end) l
                       | JNull => false
                       | _ => true
                       end) kv
        | _ => true
        end
    end.

  Fixpoint jdepth (v : jv) : nat :=
    match v with
    | JList l => S (fold_right (fun x acc => Nat.max (jdepth x) acc) 0 l)
    | JDict kv => S (fold_right (fun p acc => Nat.max (jdepth (snd p)) acc) 0 kv)
    | _ => 1
    end.

  Definition no_null_values (data : jv) : res unit :=
    match data with
    | JDict kv =>
        let body := JDict (filter (fun p => negb (String.eqb (fst p) "metadata")) kv) in
        raise_if (negb (no_nulls (S (jdepth body)) body)) ValueErr
    | _ => Err OtherErr                        (* AttributeError: no .items *)
    end.

  (* what every loader does between parsing the text and returning *)
  Definition load_asdict_post (data : jv) : res jv :=
    no_null_values data ;;; unstringify_infinities data.
  Definition load_post (data : jv) : res graph :=
    d <- load_asdict_post data ;; fromdict d.

  (* what dump hands to the text layer *)
  Definition dump_pre (json simplified : bool) (g : graph) : res jv :=
    d <- (if simplified then asdict_simplified g else Ok (asdict g)) ;;
    if json then stringify_infinities d else Ok d.
End IO.
