(* Graph.successors / predecessors / discrete_demographic_events
   (demes/demes.py:1855-1981) *)
From Coq Require Import Bool List String.
From Demes Require Import Base.Num Base.Py Model.MDM.
Import ListNotations.
Local Open Scope string_scope.
Local Open Scope list_scope.

Section Ancestry.
  Context {N : NumOps}.

  (* insertion-ordered dict from names to lists of names *)
  Definition ndict := list (string * list string).

  Definition setdefault (k : string) (d : ndict) : ndict :=
    match assoc k d with Some _ => d | None => d ++ [(k, [])] end.

  Fixpoint append_to (k : string) (x : string) (d : ndict) : ndict :=
    match d with
    | [] => []
    | (k', v) :: d' => if String.eqb k k' then (k', v ++ [x]) :: d'
                       else (k', v) :: append_to k x d'
    end.

  Definition successors (g : graph) : ndict :=
    fold_left (fun succ d =>
                 fold_left (fun succ a => append_to a (d_name d) (setdefault a succ))
                           (d_anc d) (setdefault (d_name d) succ))
              (g_demes g) [].

  Definition predecessors (g : graph) : ndict :=
    fold_left (fun pred d =>
                 fold_left (fun pred a => append_to (d_name d) a pred)
                           (d_anc d) (setdefault (d_name d) pred))
              (g_demes g) [].

  Record events := mkEvents {
    ev_splits : list (string * list string * num);       (* parent, children, time *)
    ev_branches : list (string * string * num);          (* parent, child, time *)
    ev_mergers : list (list string * list num * string * num);   (* parents, proportions, child, time *)
    ev_admixtures : list (list string * list num * string * num) }.

  (* splits_to_add: parent -> children (a set in the library; here in order
     of insertion, compared as a set by the harness) *)
  Definition add_child (p c : string) (d : ndict) : ndict :=
    let d' := setdefault p d in
    match assoc p d' with
    | Some cs => if existsb (String.eqb c) cs then d' else append_to p c d'
    | None => d'
    end.

  Definition discrete_events (g : graph) : res events :=
    st <- foldM (fun (st : ndict * events) (cp : string * list string) =>
            let '(splits, ev) := st in
            let '(c, p) := cp in
            match p with
            | [] => Ok st
            | [p0] =>
                dc <- lookup g c ;; dp <- lookup g p0 ;; ep <- d_end dp ;;
                if neqb (d_start dc) ep then Ok (add_child p0 c splits, ev)
                else Ok (splits, mkEvents (ev_splits ev) (ev_branches ev ++ [(p0, c, d_start dc)])
                                          (ev_mergers ev) (ev_admixtures ev))
            | _ =>
                dc <- lookup g c ;;
                aligned <- foldM (fun acc a =>
                                    da <- lookup g a ;; ea <- d_end da ;;
                                    Ok (if nneq (d_start dc) ea then false else acc)) p true ;;
                let rec := (d_anc dc, d_props dc, c, d_start dc) in
                if aligned then
                  Ok (splits, mkEvents (ev_splits ev) (ev_branches ev) (ev_mergers ev ++ [rec])
                                       (ev_admixtures ev))
                else
                  Ok (splits, mkEvents (ev_splits ev) (ev_branches ev) (ev_mergers ev)
                                       (ev_admixtures ev ++ [rec]))
            end)
          (predecessors g) ([], mkEvents [] [] [] []) ;;
    let '(splits, ev) := st in
    sp <- mapM (fun pc : string * list string =>
                  dp <- lookup g (fst pc) ;; ep <- d_end dp ;;
                  Ok (fst pc, snd pc, ep)) splits ;;
    Ok (mkEvents sp (ev_branches ev) (ev_mergers ev) (ev_admixtures ev)).
End Ancestry.
