(* The assert_close / isclose family (demes/demes.py:83-106, 268-321, 386-420,
   506-552, 1159-1204, 1413-1472).  [true] = assert_close does not raise. *)
From Coq Require Import Bool List String.
From Demes Require Import Base.Num Base.Py Model.MDM.
Import ListNotations.
Local Open Scope string_scope.
Local Open Scope list_scope.

Section Close.
  Context {N : NumOps}.

  (* stable insertion sort for "sorted(...)" with a strict order [lt] *)
  Section Sort.
    Context {A : Type} (lt : A -> A -> bool).
    Fixpoint insert_sorted (x : A) (l : list A) : list A :=
      match l with
      | [] => [x]
      | y :: l' => if lt x y then x :: l else y :: insert_sorted x l'
      end.
    (* insert each element after the elements equal to it: process from the
       right so that equal keys keep their original order *)
    Definition sort_stable (l : list A) : list A :=
      fold_right insert_sorted [] l.
  End Sort.

  Fixpoint forall2b {A B} (f : A -> B -> bool) (l1 : list A) (l2 : list B) : bool :=
    match l1, l2 with
    | x :: l1', y :: l2' => f x y && forall2b f l1' l2'
    | _, _ => true                                  (* zip stops at the shorter *)
    end.

  Definition name_lt (a b : string * num) : bool := String.ltb (fst a) (fst b).

  (* isclose_deme_proportions *)
  Definition close_props (an : list string) (ap : list num) (bn : list string) (bp : list num)
             (rel abs : num) : bool :=
    if negb (Nat.eqb (List.length an) (List.length bn))
       || negb (Nat.eqb (List.length ap) (List.length bp)) then false
    else
      let a := sort_stable name_lt (combine an ap) in
      let b := sort_stable name_lt (combine bn bp) in
      forall2b (fun x y => String.eqb (fst x) (fst y) && isclose (snd x) (snd y) rel abs) a b.

  Definition close_epoch (rel abs : num) (a b : epoch) : bool :=
    isclose (e_start a) (e_start b) rel abs && isclose (e_end a) (e_end b) rel abs
    && isclose (e_ssize a) (e_ssize b) rel abs && isclose (e_esize a) (e_esize b) rel abs
    && String.eqb (e_sf a) (e_sf b)
    && isclose (e_self a) (e_self b) rel abs && isclose (e_clone a) (e_clone b) rel abs.

  Definition close_mig (rel abs : num) (a b : mig) : bool :=
    String.eqb (m_src a) (m_src b) && String.eqb (m_dst a) (m_dst b)
    && isclose (m_start a) (m_start b) rel abs && isclose (m_end a) (m_end b) rel abs
    && isclose (m_rate a) (m_rate b) rel abs.

  Definition mem_str (s : string) (l : list string) : bool := existsb (String.eqb s) l.

  Definition close_pulse (rel abs : num) (a b : pulse) : bool :=
    Nat.eqb (List.length (p_srcs a)) (List.length (p_srcs b))
    && forallb (fun s => mem_str s (p_srcs b)) (p_srcs a)
    && forallb (fun s => mem_str s (p_srcs a)) (p_srcs b)
    && String.eqb (p_dst a) (p_dst b)
    && isclose (p_time a) (p_time b) rel abs
    && Nat.eqb (List.length (p_props a)) (List.length (p_props b))
    && isclose (pysum (p_props a)) (pysum (p_props b)) rel abs
    && close_props (p_srcs a) (p_props a) (p_srcs b) (p_props b) nrel nabst.

  Definition close_deme (rel abs : num) (a b : deme) : bool :=
    String.eqb (d_name a) (d_name b)
    && isclose (d_start a) (d_start b) rel abs
    && close_props (d_anc a) (d_props a) (d_anc b) (d_props b) rel abs
    && Nat.eqb (List.length (d_epochs a)) (List.length (d_epochs b))
    && forall2b (close_epoch rel abs) (d_epochs a) (d_epochs b).

  (* attrs ordering of Deme: by the field tuple; names are unique in a valid
     graph, so the name decides *)
  Definition deme_lt (a b : deme) : bool := String.ltb (d_name a) (d_name b).

  (* attrs ordering of AsymmetricMigration: (source, dest, start, end, rate) *)
  Definition mig_lt (a b : mig) : bool :=
    if String.ltb (m_src a) (m_src b) then true
    else if negb (String.eqb (m_src a) (m_src b)) then false
    else if String.ltb (m_dst a) (m_dst b) then true
    else if negb (String.eqb (m_dst a) (m_dst b)) then false
    else if nlt (m_start a) (m_start b) then true
    else if negb (neqb (m_start a) (m_start b)) then false
    else if nlt (m_end a) (m_end b) then true
    else if negb (neqb (m_end a) (m_end b)) then false
    else nlt (m_rate a) (m_rate b).

  Definition close_graph (rel abs : num) (a b : graph) : bool :=
    String.eqb (g_units a) (g_units b)
    && neqb (g_gt a) (g_gt b)
    && Nat.eqb (List.length (g_demes a)) (List.length (g_demes b))
    && forall2b (close_deme rel abs) (sort_stable deme_lt (g_demes a)) (sort_stable deme_lt (g_demes b))
    && Nat.eqb (List.length (g_migs a)) (List.length (g_migs b))
    && forall2b (close_mig rel abs) (sort_stable mig_lt (g_migs a)) (sort_stable mig_lt (g_migs b))
    && Nat.eqb (List.length (g_pulses a)) (List.length (g_pulses b))
    && forall2b (close_pulse rel abs) (g_pulses a) (g_pulses b).
End Close.
