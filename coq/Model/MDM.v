(* The machine data model: the records behind demes.Epoch, Deme,
   AsymmetricMigration, Pulse and Graph, and untyped document values. *)
From Coq Require Import Bool List String.
From Demes Require Import Base.Num Base.Py.
Import ListNotations.
Local Open Scope string_scope.
Local Open Scope list_scope.

Section MDM.
  Context {N : NumOps}.

  (* Untyped document values (what YAML/JSON/dict input is made of). *)
  Inductive jv :=
  | JNull | JBool (b : bool) | JNum (x : num) | JStr (s : string)
  | JList (l : list jv) | JDict (kv : list (string * jv)) | JOther.

  Record epoch := mkEpoch {
    e_start : num; e_end : num; e_ssize : num; e_esize : num;
    e_sf : string; e_self : num; e_clone : num }.

  Record deme := mkDeme {
    d_name : string; d_desc : string; d_start : num;
    d_anc : list string; d_props : list num; d_epochs : list epoch }.

  Record mig := mkMig {
    m_src : string; m_dst : string; m_start : num; m_end : num; m_rate : num }.

  Record pulse := mkPulse {
    p_srcs : list string; p_dst : string; p_time : num; p_props : list num }.

  (* g_index models Graph._deme_map: an insertion-ordered dict from name to
     the position (in g_demes) of the Deme object it references. *)
  Record graph := mkGraph {
    g_desc : string; g_units : string; g_gt : num; g_doi : list string;
    g_meta : jv;
    g_demes : list deme; g_migs : list mig; g_pulses : list pulse;
    g_index : list (string * nat) }.

  Fixpoint assoc {A} (k : string) (l : list (string * A)) : option A :=
    match l with
    | [] => None
    | (k', v) :: l' => if String.eqb k k' then Some v else assoc k l'
    end.

  (* graph[name] *)
  Definition lookup (g : graph) (name : string) : res deme :=
    match assoc name (g_index g) with
    | None => Err KeyErr
    | Some i => match nth_error (g_demes g) i with
                | Some d => Ok d
                | None => Err KeyErr
                end
    end.

  (* name in graph *)
  Definition contains (g : graph) (name : string) : bool :=
    match assoc name (g_index g) with Some _ => true | None => false end.

  (* deme.end_time  (epochs[-1].end_time) *)
  Definition d_end (d : deme) : res num :=
    match rev (d_epochs d) with
    | e :: _ => Ok (e_end e)
    | [] => Err IndexErr
    end.

  Fixpoint index_of (k : string) (l : list string) : option nat :=
    match l with
    | [] => None
    | k' :: l' => if String.eqb k k' then Some 0
                  else option_map S (index_of k l')
    end.
End MDM.
