#!/bin/sh
# usage: xl.sh <repo>  : run the generator against a repo copy, show non-ok sites and f_ sites
cd /verif && VERIF_REPO=$1 PYTHONPATH=$1 /venv/bin/python xlate/pyxlate.py gen /tmp/gen_t 2>&1 | grep -v condarc | cut -c1-250
