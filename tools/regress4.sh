#!/bin/sh
# usage: regress4.sh <copy index 1..4>   evaluates every 4th seeded change on copy i (own property + earlier detectors, at most 2 checks)
i=$1
export VERIF_HOME=/tmp/vc$i VERIF_REPO=/tmp/rc$i SEEDED_NOTESTS=1 VERIF_TIMEOUT=900
cd /tmp/vc$i
k=0
for d in /verif/seeded/*/; do
  k=$((k+1))
  [ $((k % 4)) -eq $((i % 4)) ] || continue
  n=$(basename $d)
  checks=$(python3 -c "import json; m=json.load(open('$d/meta.json')); db=[c for c in (m.get('detected_by') or []) ]; p=m['property']; l=([p] if p in db or not db else [])+[c for c in db if c!=p]; print(' '.join(l[:2]))")
  python3 harness/seeded.py eval $n $checks 2>&1 | grep "VIOLATION\|detected_by" | cut -c1-200 | sed "s/^/$n: /"
done
echo DONE $i
