#!/bin/sh
# usage: regress_rev.sh <copy index> <k in 0..3>: walks the seeded list backwards (every 4th), skipping changes another worker has finished
i=$1; kk=$2
export VERIF_HOME=/tmp/vc$i VERIF_REPO=/tmp/rc$i SEEDED_NOTESTS=1 VERIF_TIMEOUT=900
cd /tmp/vc$i
k=0
for d in $(ls -d /verif/seeded/*/ | sort -r); do
  k=$((k+1))
  [ $((k % 4)) -eq $kk ] || continue
  n=$(basename $d)
  if cat /tmp/regress4_*.log /tmp/regrev_*.log 2>/dev/null | grep -q "^$n: .*detected_by"; then continue; fi
  checks=$(python3 -c "import json; m=json.load(open('$d/meta.json')); db=[c for c in (m.get('detected_by') or []) ]; p=m['property']; l=([p] if p in db or not db else [])+[c for c in db if c!=p]; print(' '.join(l[:2]))")
  python3 harness/seeded.py eval $n $checks 2>&1 | grep "VIOLATION\|detected_by" | cut -c1-200 | sed "s/^/$n: /"
done
echo DONE rev $kk
