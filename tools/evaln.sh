#!/bin/sh
# usage: evaln.sh <copy index> <name> <checks...>
i=$1; n=$2; shift; shift
export VERIF_HOME=/tmp/vc$i VERIF_REPO=/tmp/rc$i VERIF_TIMEOUT=900
cd /tmp/vc$i && python3 harness/seeded.py eval $n "$@" 2>&1 | grep "VIOLATION\|detected_by\|rc=\|not apply\|not clean" | cut -c1-230 | sed "s/^/$n: /"
