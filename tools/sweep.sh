#!/bin/sh
# usage: sweep.sh <copy> <seed>
i=$1; s=$2
export VERIF_HOME=/tmp/vc$i VERIF_REPO=/tmp/rc$i
cd /tmp/vc$i
for c in 01 02 03 04 05 06 07 08 09 10 11 12 13 14 15 16 17 18 19 20; do
  ./check C$c --tier quick --seed $s 2>&1 | grep -v "^KNOWN\|condarc" | tail -2 | cut -c1-250 | sed "s/^/seed$s: /"
done
echo DONE seed $s
