# setup: full Coq build (.vo), extraction, OCaml driver. Offline.
.PHONY: setup clean
setup:
	cd coq && coq_makefile -f _CoqProject -o Makefile
	cd coq && timeout 3000 $(MAKE) -j16
	mkdir -p build
	cd build && timeout 600 coqc -Q ../coq Demes ../coq/Extract/Extract.v
	cd build && cp ../driver/main.ml . && ocamlfind ocamlopt -w -a model.mli model.ml main.ml -o driver
clean:
	-cd coq && $(MAKE) clean
	rm -rf build coq/Makefile coq/Makefile.conf
